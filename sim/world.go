package sim

import (
	"fmt"
	"runtime"
	"strconv"
	"strings"

	"go.pennock.tech/tabular"
	"go.pennock.tech/tabular/auto"
	"go.pennock.tech/tabular/csv"
	"go.pennock.tech/tabular/html"
	"go.pennock.tech/tabular/json"
	"go.pennock.tech/tabular/markdown"
	"go.pennock.tech/tabular/texttable"
)

// Violation is what an oracle reports.  Signature is stable across runs and
// minimisation (no line numbers, no addresses); Detail is for humans.
type Violation struct {
	Property  string `json:"property"`
	Signature string `json:"signature"`
	Detail    string `json:"detail"`
	Step      int    `json:"step"`
}

func (v *Violation) String() string {
	return fmt.Sprintf("%s [%s] at step %d: %s", v.Property, v.Signature, v.Step, v.Detail)
}

// PanicInfo describes a recovered panic: its value and the innermost frame
// that belongs to the code under test.
type PanicInfo struct {
	Value string
	Frame string // "pkg/file.go:Func" of the innermost in-repo frame
}

const repoPrefix = "go.pennock.tech/tabular"

// capturePanic must be called from a deferred function, directly, with the
// value recover() returned.
func capturePanic(r interface{}) *PanicInfo {
	pi := &PanicInfo{Value: fmt.Sprint(r), Frame: "?"}
	pcs := make([]uintptr, 64)
	n := runtime.Callers(2, pcs)
	frames := runtime.CallersFrames(pcs[:n])
	for {
		f, more := frames.Next()
		if strings.HasPrefix(f.Function, repoPrefix) {
			fn := f.Function[strings.LastIndex(f.Function, "/")+1:]
			file := f.File
			if i := strings.LastIndex(file, "/"); i >= 0 {
				file = file[i+1:]
			}
			pi.Frame = file + ":" + fn
			break
		}
		if !more {
			break
		}
	}
	// normalise run-dependent numbers out of runtime error texts
	pi.Value = normalisePanic(pi.Value)
	return pi
}

func normalisePanic(s string) string {
	var b strings.Builder
	digits := false
	for _, c := range s {
		if c >= '0' && c <= '9' {
			if !digits {
				b.WriteByte('N')
				digits = true
			}
			continue
		}
		digits = false
		b.WriteRune(c)
	}
	out := b.String()
	if len(out) > 120 {
		out = out[:120]
	}
	return out
}

// ---------------------------------------------------------------------------
// Model

type mCell struct {
	itemID int
	item   interface{}
	owner  *propOwner     // C12 model of this live cell's properties (lazily made)
	row    *mRow          // the row holding the cell (set when it is added)
	idx    int            // 0-based position in that row
	regs   []*SimCallback // cell-owned registrations this cell carries, in order
}

type mRow struct {
	real     *tabular.Row
	cells    []*mCell
	sep      bool
	attached bool
	pos      int // 1-based position once attached
	handle   int // index in World.handles (non-separator rows) or World.seps
	pending  []error
	zero     bool // created as new(tabular.Row), not by a constructor
	owner    *propOwner
	header   bool
}

// World is one simulated table with its reference model.
type World struct {
	Y    Yielder
	Log  *EventLog
	Kind int
	Tab  tabular.Table   // what building calls go through (may be a wrapper)
	Core *tabular.ATable // the table itself

	headerSet     bool
	header        *mRow
	headerMaxEver int
	rows          []*mRow // attached rows and separators, in order
	handles       []*mRow // every non-separator row ever created, in creation order
	seps          []*mRow
	nextItem      int
	itemCell      map[int]*mCell // by item id

	// wrappers reused across render steps
	reuseText *texttable.TextTable
	reuseCSV  *csv.CSVTable
	reuseHTML *html.HTMLTable
	reuseJSON *json.JSONTable
	reuseMD   *markdown.MarkdownTable

	// error model (C11)
	expErrs    []error // expected content of the table's error list, as a multiset with per-source order
	unknownErr int     // library-minted errors expected (misuse), counted
	ecs        []*ecModel
	nextErr    int

	// property model (C12)
	tableOwner       *propOwner
	colOwners        []*propOwner // index = column number
	extraOwn         []*propOwner // copies and handles
	keyPool          []interface{}
	nextVal          int
	rendered         bool // at least one render pass happened (cells may carry renderer-private keys)
	tagged           bool // tagColumns() has put the identity key on the columns
	pendingViolation *Violation
	tcSizes          map[string]int // printed size of table+columns state per key set
	liveProbe        int
	colProbe         int
	sharedSentinel   error
	simPanicked      bool            // a scripted callback panic cut the current step short
	simItems         []*simBase      // mutable items created so far
	Template         *tabular.Cell   // a cell value prepared outside (shared BY VALUE between tables)
	dumped           bool            // the step just executed printed the table with %#v
	foreignFired     int             // invocations of callbacks that belong to another table
	TemplateErrs     [][]error       // error lists prepared outside (the same slices are handed to several tables)
	Other            *tabular.ATable // a second table some rows were also added to (C09 only)

	// callbacks (C13)
	regs         []*SimCallback
	cbEvents     []cbEvent
	expAdd       []cbExpect
	optAdd       []cbExpect // add-time events that may, but need not, happen in this step
	passExpected []cbExpect
	passSlot     []int // slot (list, or the block of all columns) of every expected event
	inPass       bool
	inHeaders    bool
	errSink      *mRow // detached row currently receiving callback errors, or nil = table
	pendingRow   *mRow // row being created inside the table by the current step
	attaching    *mRow // the row an AddRow call in progress is attaching
	itemByVal    map[interface{}]int

	Probes map[string]int
	Faults map[string]int
}

func NewWorld(kind int, style string, y Yielder, log *EventLog) *World {
	w := &World{Y: y, Log: log, Kind: kind, itemCell: map[int]*mCell{}, itemByVal: map[interface{}]int{}, Probes: map[string]int{}, Faults: map[string]int{}}
	switch kind {
	case 1:
		t := csv.New()
		w.Tab = t
		w.Core = t.Table.(*tabular.ATable)
	case 2:
		t := html.New()
		w.Tab = t
		w.Core = t.Table.(*tabular.ATable)
	case 3:
		t := json.New()
		w.Tab = t
		w.Core = t.Table.(*tabular.ATable)
	case 4:
		t := markdown.New()
		w.Tab = t
		w.Core = t.Table.(*tabular.ATable)
	case 5:
		t := texttable.New()
		w.Tab = t
		w.Core = t.Table.(*tabular.ATable)
	case 6:
		t := auto.New(style)
		w.Tab = t
		w.Core = coreOf(t)
	default:
		t := tabular.New()
		w.Tab = t
		w.Core = t
	}
	w.tableOwner = &propOwner{name: "table", vals: map[interface{}]interface{}{}}
	w.colOwners = []*propOwner{{name: "col0", vals: map[interface{}]interface{}{}}}
	return w
}

// coreOf digs the *ATable out of any of the wrapper types.
func coreOf(t tabular.Table) *tabular.ATable {
	for i := 0; i < 16; i++ {
		switch x := t.(type) {
		case *tabular.ATable:
			return x
		case *csv.CSVTable:
			t = x.Table
		case *html.HTMLTable:
			t = x.Table
		case *json.JSONTable:
			t = x.Table
		case *markdown.MarkdownTable:
			t = x.Table
		case *texttable.TextTable:
			t = x.Table
		default:
			return nil
		}
	}
	return nil
}

func (w *World) probe(name string) { w.Probes[name]++ }

// foreignCallback is registered on a table other than the simulated one; once
// armed it has no reason to be invoked ever again.
type foreignCallback struct {
	w     *World
	armed bool
}

func (f *foreignCallback) UpdateProperties(tabular.PropertyOwner) error {
	if f.armed {
		f.w.foreignFired++
	}
	return nil
}

// quietCallback does nothing; it only occupies a slot of a callback list.
type quietCallback struct{}

func (quietCallback) UpdateProperties(tabular.PropertyOwner) error { return nil }

type tmplKey struct{ n int }

var tmplKeys = []interface{}{tmplKey{1}, tmplKey{2}, tmplKey{3}}

// NewTemplateCell builds a cell value with three properties, rendered-like
// (several links in its chain).  Copies of it go into tables of different tasks.
// NewTemplateErrs builds the error lists that several tables are handed: one
// longer than a container's starting capacity (with spare capacity of its
// own), one short; both free of nil entries.
func NewTemplateErrs() [][]error {
	full := make([]error, 12, 16) // (with room to spare: whoever keeps this slice and appends to it writes into memory it shares)
	for i := range full {
		full[i] = fmt.Errorf("prepared error %d", i)
	}
	// (No nil entries in a list that several tables share: a container may tidy
	// the nils out of a list it is handed — the statement only says what ends up
	// in the container — and sharing such a list is then the caller's race.)
	short := []error{fmt.Errorf("prepared error a"), fmt.Errorf("prepared error b"), fmt.Errorf("prepared error c")}
	return [][]error{full, short}
}

func NewTemplateCell() *tabular.Cell {
	c := tabular.NewCell("tmpl")
	for i, k := range tmplKeys {
		c.SetProperty(k, 100+i)
	}
	// a history of overwrites and removals, as a cell that has been through a few
	// renders has: links of its chain have been rebuilt
	c.SetProperty(tmplKeys[0], 200)
	c.SetProperty(tmplKeys[1], nil)
	c.SetProperty(tmplKeys[1], 201)
	c.SetProperty(tmplKeys[0], 202)
	// ... and that already carries nine (silent) render-time callbacks
	reg := tabular.New()
	for i := 0; i < 9; i++ {
		reg.RegisterPropertyCallback(&c, tabular.CB_AT_RENDER, tabular.CB_ON_ITSELF, quietCallback{})
	}
	return &c
}

// bindPending learns the *Row of a row the table created internally (it is the
// last entry of AllRows() as soon as the table has appended it).
func (w *World) bindPending() {
	mr := w.pendingRow
	if mr == nil || mr.real != nil {
		return
	}
	if all := w.Core.AllRows(); len(all) == len(w.rows)+1 {
		mr.real = all[len(all)-1]
	}
}

func (w *World) newItem(it Item) (interface{}, int) {
	w.nextItem++
	id := w.nextItem
	v := MakeItem(it, id, w.Y, w.Log)
	if b, ok := v.(interface{ base() *simBase }); ok {
		w.simItems = append(w.simItems, b.base())
	}
	return v, id
}

func (w *World) newCells(items []Item) ([]interface{}, []*mCell) {
	vals := make([]interface{}, len(items))
	cells := make([]*mCell, len(items))
	for i, it := range items {
		v, id := w.newItem(it)
		vals[i] = v
		cells[i] = &mCell{itemID: id, item: v}
		w.itemCell[id] = cells[i]
		if v != nil {
			if _, dup := w.itemByVal[v]; !dup {
				w.itemByVal[v] = id
			}
		}
	}
	return vals, cells
}

func pick(n, ref int) int {
	if n <= 0 {
		return -1
	}
	if ref < 0 {
		ref = -ref
	}
	return ref % n
}

func (w *World) detached() []*mRow {
	var out []*mRow
	for _, h := range w.handles {
		if !h.attached {
			out = append(out, h)
		}
	}
	return out
}

// maxCols is the model's column count: widest of current header and rows.
func (w *World) maxCols() (lo, hi int) {
	n := 0
	if w.headerSet {
		n = len(w.header.cells)
	}
	for _, r := range w.rows {
		if !r.sep && len(r.cells) > n {
			n = len(r.cells)
		}
	}
	hi = n
	if w.headerMaxEver > hi {
		hi = w.headerMaxEver
	}
	return n, hi
}

// syncColumns extends the column-owner model to the table's current count.
func (w *World) syncColumns() {
	_, hi := w.maxCols()
	for len(w.colOwners) <= hi {
		w.colOwners = append(w.colOwners, &propOwner{name: fmt.Sprintf("col%d", len(w.colOwners)), vals: map[interface{}]interface{}{}})
	}
}

// Do executes one building step against the real table and the model.
//
//	headers      Items                      AddHeaders(items...)
//	rowItems     Items                      AddRowItems(items...)
//	newRow       A ctor(0 NewRow,1 NewRowWithCapacity(B),2 t.NewRowSizedFor)
//	rowAdd       A row ref (0 = newest), Items[0]  Row.Add on any non-separator row (attached or not)
//	attach       A ref among detached rows  AddRow
//	appendNewRow                            AppendNewRow
//	separator                               AddSeparator
//	sepAdd       A sep ref, Items[0]        Row.Add on a separator row (misuse)
//	scramble     A mode                     mutate the slice AllRows() returned
//
// Steps of other families (errors, properties, callbacks, renders) are in
// their own files; Do returns false for an op it does not know.
func (w *World) Do(st *Step) bool {
	switch st.Op {
	case "headers":
		vals, cells := w.newCells(st.Items)
		hdr := &mRow{cells: cells, header: true}
		for i, c := range cells {
			c.row, c.idx = hdr, i
		}
		w.inHeaders = true
		w.Tab.AddHeaders(vals...)
		w.inHeaders = false
		w.headerSet = true
		w.header = hdr
		if len(cells) > w.headerMaxEver {
			w.headerMaxEver = len(cells)
		}
		w.syncColumns()
		w.expectAddTime(w.header, true)
	case "rowItems":
		vals, cells := w.newCells(st.Items)
		mr := &mRow{cells: cells, attached: true, pos: len(w.rows) + 1, handle: len(w.handles)}
		for i, c := range cells {
			c.row, c.idx = mr, i
		}
		w.handles = append(w.handles, mr)
		w.pendingRow = mr
		w.Tab.AddRowItems(vals...)
		w.bindPending()
		w.pendingRow = nil
		w.rows = append(w.rows, mr)
		w.syncColumns()
		w.expectAddTime(mr, false)
	case "newRow":
		var r *tabular.Row
		switch pick(4, st.A) {
		case 0:
			r = tabular.NewRow()
		case 1:
			r = tabular.NewRowWithCapacity(pick(12, st.B))
		case 3:
			// the zero value of the exported type (error histories only): whether it
			// accepts cells is not stated, but a cell it refuses is a reported misuse
			r = new(tabular.Row)
			w.probe("zero_value_row")
		default:
			r = w.Tab.NewRowSizedFor()
		}
		w.handles = append(w.handles, &mRow{real: r, handle: len(w.handles), zero: pick(4, st.A) == 3})
	case "rowAdd":
		i := pick(len(w.handles), st.A)
		if i < 0 || len(st.Items) == 0 {
			return true
		}
		h := w.handles[len(w.handles)-1-i] // 0 = the most recently created row
		if h.real == nil {
			return true
		}
		vals, cells := w.newCells(st.Items[:1])
		if h.zero {
			before := len(h.real.Cells())
			h.real.Add(tabular.NewCell(vals[0]))
			if len(h.real.Cells()) == before {
				// refused: then it is misuse, and misuse is reported (through the row
				// until it is attached, by the table afterwards)
				w.expect(misuseMarker, h)
				w.Faults["misuse_zero_row_add"]++
				return true
			}
			h.zero = false // it accepts cells: a row like any other
			h.cells = append(h.cells, cells[0])
			if h.attached {
				w.syncColumns()
			}
			return true
		}
		w.expectRowAdd(h, cells[0])
		h.real.Add(tabular.NewCell(vals[0]))
		h.cells = append(h.cells, cells[0])
		if h.attached {
			w.probe("late_row_add")
			lo, _ := w.maxCols()
			if lo == len(h.cells) {
				w.probe("late_add_made_row_widest")
			}
			w.syncColumns()
		}
	case "attach":
		d := w.detached()
		i := pick(len(d), st.A)
		if i < 0 {
			return true
		}
		h := d[i]
		w.attaching = h
		w.Tab.AddRow(h.real)
		w.attaching = nil
		h.attached = true
		h.pos = len(w.rows) + 1
		w.rows = append(w.rows, h)
		w.syncColumns()
		w.movePending(h)
		w.expectAddTime(h, false)
	case "appendNewRow":
		mr := &mRow{attached: true, pos: len(w.rows) + 1, handle: len(w.handles)}
		w.handles = append(w.handles, mr)
		w.pendingRow = mr
		r := w.Tab.AppendNewRow()
		w.pendingRow = nil
		mr.real = r
		w.rows = append(w.rows, mr)
		w.expectAddTime(mr, false)
	case "separator":
		mr := &mRow{sep: true, attached: true, pos: len(w.rows) + 1, handle: len(w.seps)}
		w.seps = append(w.seps, mr)
		w.pendingRow = mr
		w.Tab.AddSeparator()
		w.bindPending()
		w.pendingRow = nil
		w.rows = append(w.rows, mr)
	case "sepAdd":
		i := pick(len(w.seps), st.A)
		if i < 0 || len(st.Items) == 0 || w.seps[i].real == nil {
			return true
		}
		v, _ := w.newItem(st.Items[0])
		w.seps[i].real.Add(tabular.NewCell(v))
		w.unknownErr++
		w.Faults["misuse_sep_add"]++
	case "bulkRows":
		// A rows of B cells each, added with AddRowItems
		n, k := pick(400, st.A), pick(8, st.B)
		for i := 0; i < n; i++ {
			items := make([]Item, k)
			for j := range items {
				items[j] = Item{K: "s", S: "b" + strconv.Itoa(i) + "." + strconv.Itoa(j)}
			}
			sub := Step{Op: "rowItems", Items: items}
			w.Do(&sub)
		}
		w.probe("bulk_rows")
	case "addTemplate":
		// the caller adds (a copy of) a cell value prepared elsewhere, with properties
		if w.Template == nil {
			return true
		}
		i := pick(len(w.handles), st.A)
		if i < 0 {
			return true
		}
		h := w.handles[len(w.handles)-1-i]
		if h.real == nil {
			return true
		}
		w.nextItem++
		mc := &mCell{itemID: w.nextItem, item: w.Template.Item()}
		w.itemCell[mc.itemID] = mc
		w.expectRowAdd(h, mc)
		h.real.Add(*w.Template)
		h.cells = append(h.cells, mc)
		if h.attached {
			w.syncColumns()
		}
		if p := w.addrPtr(mc); p != nil && st.B != 0 {
			p.SetProperty(tmplKeys[pick(len(tmplKeys), st.B)], st.B) // re-set a key the template came with
			// and one more callback on this table's own copy of the cell
			w.Tab.RegisterPropertyCallback(p, tabular.CB_AT_RENDER, tabular.CB_ON_ITSELF, quietCallback{})
		}
		w.probe("template_cell_added_by_value")
	case "foreignCopy":
		// a by-value copy of a cell that LIVES IN ANOTHER TABLE (where it has been
		// added and rendered, at the column index it will get here) is added to a
		// row of this table: from then on it is a cell of this table and of the
		// column it sits in; nothing registered on the other table concerns it
		i := pick(len(w.handles), st.A)
		if i < 0 {
			return true
		}
		h := w.handles[len(w.handles)-1-i]
		if h.real == nil {
			return true
		}
		k := len(h.cells) + 1
		other := tabular.New()
		items := make([]interface{}, k)
		for j := range items {
			items[j] = "other table"
		}
		v, id := w.newItem(Item{K: "s", S: "from another table"})
		items[k-1] = v
		other.AddRowItems(items...)
		fc := &foreignCallback{w: w}
		other.RegisterPropertyCallback(other, tabular.CB_AT_ADD, tabular.CB_ON_CELL, fc)
		other.RegisterPropertyCallback(other, tabular.CB_AT_RENDER_PRECELL, tabular.CB_ON_CELL, fc)
		for n := 0; n <= k; n++ {
			if c := other.Column(n); c != nil {
				other.RegisterPropertyCallback(c, tabular.CB_AT_ADD, tabular.CB_ON_CELL, fc)
				other.RegisterPropertyCallback(c, tabular.CB_AT_RENDER_PRECELL, tabular.CB_ON_CELL, fc)
				other.RegisterPropertyCallback(c, tabular.CB_AT_RENDER_POSTCELL, tabular.CB_ON_CELL, fc)
			}
		}
		other.InvokeRenderCallbacks() // the other table has been through a render pass
		fc.armed = true               // ... and is not touched again
		src, err := other.CellAt(tabular.CellLocation{Row: 1, Column: k})
		if err != nil || src == nil {
			return true
		}
		mc := &mCell{itemID: id, item: v}
		w.itemCell[id] = mc
		w.expectRowAdd(h, mc)
		h.real.Add(*src)
		h.cells = append(h.cells, mc)
		if h.attached {
			w.syncColumns()
		}
		w.probe("cell_copied_from_another_table")
	case "addTemplateErrs":
		// the caller hands the table a list of errors prepared elsewhere — the very
		// same slice that other tables are handed too (it stays the caller's)
		if len(w.TemplateErrs) == 0 {
			return true
		}
		w.Core.AddErrorList(w.TemplateErrs[pick(len(w.TemplateErrs), st.A)])
		w.probe("shared_error_list_added")
	case "attachOther":
		// the same *Row is also added to a SECOND table (nothing forbids it).  The
		// model does not follow what that means for either table; only C09 uses
		// this step, and only asks that nothing panics afterwards.
		i := pick(len(w.handles), st.A)
		if i < 0 {
			return true
		}
		h := w.handles[len(w.handles)-1-i]
		if h.real == nil {
			return true
		}
		if w.Other == nil {
			w.Other = tabular.New()
		}
		w.Other.AddRow(h.real)
		w.probe("row_attached_to_a_second_table")
	case "mutate":
		// the caller changes an item after storing it and does NOT call Update
		i := pick(len(w.simItems), st.A)
		if i < 0 {
			return true
		}
		w.simItems[len(w.simItems)-1-i].text += "~changed"
		w.probe("item_mutated_without_update")
	case "dump":
		// the caller prints the table with %#v (a debugging aid): neither a render
		// pass nor a mutation — nothing the table reports may differ afterwards
		_ = fmt.Sprintf("%#v", w.Core)
		w.dumped = true
		w.probe("table_printed_with_%#v")
	case "scramble":
		rr := w.Tab.AllRows()
		switch pick(3, st.A) {
		case 0:
			for i, j := 0, len(rr)-1; i < j; i, j = i+1, j-1 {
				rr[i], rr[j] = rr[j], rr[i]
			}
		case 1:
			for i := range rr {
				rr[i] = nil
			}
		default:
			rr = append(rr[:0], tabular.NewRow())
			_ = rr
		}
		w.probe("scrambled_allrows")
	default:
		return false
	}
	return true
}

// RenderOutcome is what a scripted render step produced.
type RenderOutcome struct {
	Spec    RenderSpec
	Out     string
	Err     error
	Panic   *PanicInfo
	Faulted bool // a writer fault was injected (the output is partial by design)
	Writer  *SimWriter
}

// ApplyRender executes a "render" step: A format, B decoration, C via,
// D flags (bit0/1 renderer options, bit2 writer offers WriteString),
// E bit0 use RenderTo(SimWriter); Plan [k, mode, frac] injects a writer fault.
func (w *World) ApplyRender(st *Step) *RenderOutcome {
	spec := specOf(st)
	ro := &RenderOutcome{Spec: spec}
	if len(st.Plan) >= 2 && st.Plan[1] != FaultNone {
		spec.ToWriter = true
	}
	if !spec.ToWriter {
		ro.Out, ro.Err, ro.Panic = w.Render(spec, nil)
		return ro
	}
	wr, sw := newSimWriter(st.D, w.Y)
	if len(st.Plan) >= 2 {
		sw.FaultAt, sw.Mode = st.Plan[0], pick(NFaultModes, st.Plan[1])
		if len(st.Plan) >= 3 {
			sw.Frac = pick(100, st.Plan[2])
		}
		if len(st.Plan) >= 4 {
			sw.Err = faultErrors[pick(len(faultErrors), st.Plan[3])]
		}
	}
	ro.Spec = spec
	_, ro.Err, ro.Panic = w.Render(spec, wr)
	ro.Out = string(sw.Accepted)
	ro.Writer = sw
	if sw.Fired > 0 {
		ro.Faulted = true
		w.Faults[faultNames[sw.Mode]]++
	}
	return ro
}

// Apply executes any non-render step.  It returns a violation only for
// checks that are made at the call itself (registration results).
func (w *World) Apply(st *Step) *Violation {
	w.beginStep()
	if w.Do(st) || w.DoErr(st) || w.DoProp(st) || w.doColumnSetting(st) {
		return nil
	}
	_, v := w.DoCB(st)
	return v
}
