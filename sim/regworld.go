package sim

import (
	"fmt"
	"sort"
	"strings"

	"go.pennock.tech/tabular"
	"go.pennock.tech/tabular/auto"
	"go.pennock.tech/tabular/csv"
	"go.pennock.tech/tabular/html"
	"go.pennock.tech/tabular/json"
	"go.pennock.tech/tabular/markdown"
	"go.pennock.tech/tabular/texttable"
	"go.pennock.tech/tabular/texttable/decoration"
)

// RegRun is the shared state of one registry simulation: the name pool of
// this run and the recorded history of operations.
type RegRun struct {
	prefix      string
	pool        []string // names this run may register
	never       []string // names this run never registers
	seq         int      // global event sequence number (only one task runs at a time)
	hist        []*regOp
	Probes      map[string]int
	subPkgNamed string // a decoration name that reads as a sub-package style with a trailing section
	neverDeco   []string
}

type regOp struct {
	task     int
	kind     string // "reg", "named", "names", "setdeco"
	name     string
	variant  int // reg: which decoration
	inv, ret int
	got      decoration.Decoration // named
	list     []string              // names
	err      bool                  // setdeco: SetDecorationNamed returned an error
	rerr     bool                  // setdeco: Render returned an error
	out      string                // setdeco: Render output
}

var poolShapes = []string{"alpha", "Mixed Case", "ünï-cödé", "alpha.beta", "ctl\x00\n\t\xff\ufffdname", "UPPER-and-a-name-that-is-longer-than-sixty-four-bytes-xxxxxxxxxxxxxxxxxxxxxxxxxx", "trailing blank ", "leading-tab"}

// RegOpts: what a run may do beyond registering fresh names.
type RegOpts struct {
	OverwriteBuiltin bool // pool gets the built-in name utf8-heavy
	EmptyName        bool // pool gets the empty string
	Rot              int  // which name shapes the pool starts with
}

// execCounter makes the names of every execution in this process fresh: the
// registry has no way to forget a name, and an execution must not see what an
// earlier execution (of the same script, even) registered.  Names never enter
// the event log (pool indices do), so the log is independent of the counter.
var execCounter int

// builtinVariant is the variant number standing for the original decoration
// of the built-in name that a run may overwrite.
const builtinVariant = 100

// emptyVariant: the application registers the EMPTY decoration under a name.
// The latest registration wins, so lookups then return the empty decoration
// and a table set to that name refuses to render — but the name is listed.
const emptyVariant = 101

const overwrittenBuiltin = decoration.D_UTF8_HEAVY

var emptyNameRegisteredInThisProcess bool

func NewRegRun(seed uint64, npool int, opts RegOpts) *RegRun {
	execCounter++
	rr := &RegRun{prefix: fmt.Sprintf("r%x-%d-", seed&0xffffff, execCounter), Probes: map[string]int{}}
	defer func() {
		if opts.OverwriteBuiltin {
			// this run may overwrite a built-in name ("existing entries may be
			// overwritten").  The registry cannot forget, so the run starts by
			// putting the original back — as a recorded registration that
			// completed before everything else.
			op := &regOp{task: -1, kind: "reg", name: overwrittenBuiltin, variant: builtinVariant, inv: rr.tick()}
			decoration.RegisterDecorationName(overwrittenBuiltin, variantDeco(builtinVariant))
			op.ret = rr.tick()
			rr.hist = append(rr.hist, op)
			rr.pool = append(rr.pool, overwrittenBuiltin)
		}
		if opts.EmptyName {
			// the EMPTY STRING is a name like any other.  It cannot be made fresh per
			// execution, so — like the built-in above — the run starts from a recorded
			// registration of a known value, and Close leaves the empty decoration
			// there (which reads exactly like a name never registered).
			op := &regOp{task: -1, kind: "reg", name: "", variant: 7, inv: rr.tick()}
			decoration.RegisterDecorationName("", variantDeco(7))
			emptyNameRegisteredInThisProcess = true
			op.ret = rr.tick()
			rr.hist = append(rr.hist, op)
			rr.pool = append(rr.pool, "")
			var never []string
			for _, n := range rr.never {
				if n != "" {
					never = append(never, n)
				}
			}
			rr.never = never
		}
	}()
	for i := 0; i < npool && i < len(poolShapes); i++ {
		shape := pick(len(poolShapes), i+opts.Rot)
		name := rr.prefix + poolShapes[shape]
		if shape == 1 {
			name = "zz " + poolShapes[shape] + " " + rr.prefix // sorts after every built-in name
		}
		if shape == 7 {
			name = "\t" + name // sorts before every built-in name; white space at either end is part of a name
		}
		rr.pool = append(rr.pool, name)
	}
	// never registered — including names that only differ from a registered one
	// by case or surrounding white space: the registry is an exact-match map
	rr.never = []string{rr.prefix + "never", "", "no-such-decoration", "UTF8-Heavy", " none", "ascii-simple\n"}
	// as DECORATION names these are unknown too; as style strings they select a
	// renderer, so only the decoration-name routes (C17) use them
	rr.neverDeco = []string{"json", "texttable"}
	rr.subPkgNamed = "html." + rr.prefix + "dark"
	for _, p := range rr.pool {
		// (not from a dotted name: through auto an unknown "X.Y " legitimately falls back to "X")
		if !strings.Contains(p, ".") {
			rr.never = append(rr.never, strings.ToUpper(p), p+" ")
			break
		}
	}
	return rr
}

func (rr *RegRun) tick() int { rr.seq++; return rr.seq }

// Close puts back every built-in name this run overwrote: the registry lives
// as long as the process and later runs expect the built-ins to be themselves.
func (rr *RegRun) Close() {
	seen := map[string]bool{}
	for _, o := range rr.hist {
		if o.kind == "reg" && isBuiltin(o.name) && !seen[o.name] {
			seen[o.name] = true
			decoration.RegisterDecorationName(o.name, originalBuiltin(o.name))
		}
		if o.kind == "reg" && o.name == "" && !seen[o.name] {
			seen[o.name] = true
			decoration.RegisterDecorationName("", decoration.EmptyDecoration)
		}
	}
}

func originalBuiltin(name string) decoration.Decoration {
	switch name {
	case decoration.D_ASCII_SIMPLE:
		return decoration.ASCIIBoxSimple()
	case decoration.D_NONE:
		return decoration.NoBox()
	case decoration.D_UTF8_LIGHT:
		return decoration.UTF8BoxLight()
	case decoration.D_UTF8_LIGHT_CURVED:
		return decoration.UTF8BoxLightCurved()
	case decoration.D_UTF8_DOUBLE:
		return decoration.UTF8BoxDouble()
	}
	return decoration.UTF8BoxHeavy()
}

// registeredNow: some registration of exactly this name has completed.
func (rr *RegRun) registeredNow(name string) bool {
	for _, o := range rr.hist {
		if o.kind == "reg" && o.name == name && o.ret > 0 {
			return true
		}
	}
	return false
}

// variantDeco is decoration number v: complete, and recognisable in rendered
// output by its cross-piece glyph.
func variantDeco(v int) decoration.Decoration {
	if v == builtinVariant {
		return decoration.UTF8BoxHeavy()
	}
	if v == emptyVariant {
		return decoration.Decoration{}
	}
	g := variantGlyph(v)
	if v%20 >= 16 {
		// hand-built, not Populate()d: only fields the renderer reads are set
		return decoration.Decoration{HOuter: "=", HRule: "-", VHeader: "!", VBodyBorder: "!", VBodyInner: ":",
			TopLeft: g, TopRight: g, BottomLeft: g, BottomRight: g, HTopDown: g, BTopDown: g, BBottomUp: g, HBLeft: g, HBRight: g, HBCross: g, LeftBodyRule: g, RightBodyRule: g}
	}
	d := decoration.Decoration{Horizontal: "-", Vertical: "|", CrossPiece: g}
	d.Populate()
	return d
}

// variantGlyph is the glyph by which decoration v is recognised in output.
func variantGlyph(v int) string {
	if v == builtinVariant {
		return "┏"
	}
	return string(rune('A' + v%20))
}

// nameFor resolves a scripted name index: pool names, then built-ins, then
// never-registered names.
func (rr *RegRun) nameFor(i int) string {
	all := append(append(append(append([]string{}, rr.pool...), builtinDecos...), rr.never...), rr.neverDeco...)
	return all[pick(len(all), i)]
}

func (rr *RegRun) isPool(n string) bool {
	for _, p := range rr.pool {
		if p == n {
			return true
		}
	}
	return false
}

func isBuiltin(n string) bool {
	for _, b := range builtinDecos {
		if b == n {
			return true
		}
	}
	return false
}

func smallTable() *tabular.ATable {
	t := tabular.New()
	t.AddHeaders("h1", "h2")
	t.AddRowItems("a", "b")
	t.AddRowItems("c", "d")
	return t
}

// DoReg executes one registry step for a task.
//
//	reg       A name index (pool only), B decoration variant
//	named     A name index (pool, built-ins, never-registered)
//	names                                 RegisteredDecorationNames()
//	setdeco   A name index                SetDecorationNamed + Render
//	probe                                 C19: the style-listing / style-string checks
func (rr *RegRun) DoReg(task int, st *Step, log *EventLog) *Violation {
	op := &regOp{task: task, kind: st.Op}
	switch st.Op {
	case "reg":
		if len(rr.pool) == 0 {
			return nil
		}
		op.name = rr.pool[pick(len(rr.pool), st.A)]
		if st.C == 1 {
			// the application overwrites a built-in name (documented as allowed)
			op.name = decoration.D_UTF8_HEAVY
			rr.Probes["builtin_overwritten"]++
		}
		if st.C == 2 {
			// a decoration registered under a name that also reads as "sub-package
			// plus trailing section"
			op.name = rr.subPkgNamed
			rr.Probes["decoration_named_like_a_subpackage_style"]++
		}
		op.variant = pick(20, st.B)
		if st.D == 1 && st.C == 0 && !strings.Contains(op.name, ".") {
			// (not under a dotted name: through auto an unusable "X.Y" legitimately
			// falls back to "X")
			op.variant = emptyVariant
			rr.Probes["empty_decoration_registered"]++
		}
		op.inv = rr.tick()
		rr.hist = append(rr.hist, op)
		decoration.RegisterDecorationName(op.name, variantDeco(op.variant))
		op.ret = rr.tick()
	case "named":
		op.name = rr.nameFor(st.A)
		op.inv = rr.tick()
		rr.hist = append(rr.hist, op)
		op.got = decoration.Named(op.name)
		op.ret = rr.tick()
	case "names":
		op.inv = rr.tick()
		rr.hist = append(rr.hist, op)
		op.list = decoration.RegisteredDecorationNames()
		op.ret = rr.tick()
	case "setdeco":
		op.name = rr.nameFor(st.A)
		via := pick(4, st.B)
		if via == 2 && (isSubPkg(op.name) || op.name == "texttable") {
			via = 3 // bare, these words select a renderer; as decoration names they exist only behind "texttable."
		}
		if via >= 2 && (!strings.Contains(op.name, ".") || rr.registeredNow(op.name)) {
			// (a dotted name that is not registered is left to the direct route:
			// through auto, "X.Y" with only X registered legitimately selects X)
			// through the auto package, which looks the name up itself and swallows
			// the error: the refusal to render is then the only report
			style := op.name
			if via == 3 {
				style = "texttable." + op.name
			}
			op.inv = rr.tick()
			rr.hist = append(rr.hist, op)
			rt := auto.Wrap(smallTable(), style)
			op.ret = rr.tick()
			out, rerr := rt.Render()
			op.rerr = rerr != nil
			op.err = op.rerr
			op.out = out
			rr.Probes["setdeco_through_auto"]++
			break
		}
		tt := texttable.Wrap(smallTable())
		if via == 1 {
			// the wrapper has already rendered successfully once (default decoration)
			tt.Render()
			rr.Probes["setdeco_on_a_wrapper_that_rendered_before"]++
		}
		op.inv = rr.tick()
		rr.hist = append(rr.hist, op)
		_, err := tt.SetDecorationNamed(op.name)
		op.ret = rr.tick()
		op.err = err != nil
		out, rerr := tt.Render()
		op.rerr = rerr != nil
		op.out = out
	default:
		return nil
	}
	if log != nil {
		log.Add(fmt.Sprintf("t%d %s name#%d [%d,%d]", task, op.kind, st.A, op.inv, op.ret))
	}
	return nil
}

// ---------------------------------------------------------------------------
// the C17 oracle over a recorded history

func (rr *RegRun) regsOf(name string) []*regOp {
	var out []*regOp
	for _, o := range rr.hist {
		if o.kind == "reg" && o.name == name && o.ret > 0 {
			out = append(out, o)
		} else if o.kind == "reg" && o.name == name {
			out = append(out, o) // invoked, never returned (task died): still possibly applied
		}
	}
	return out
}

// allowed returns the set of decoration variants a lookup of name spanning
// [inv,ret] may observe, and whether "not registered" is allowed.
func (rr *RegRun) allowed(name string, inv, ret int) (variants map[int]bool, emptyOK bool, mustLatest bool) {
	variants = map[int]bool{}
	regs := rr.regsOf(name)
	completedBefore := false
	quiescent := true // every registration of name completed before inv
	for _, r := range regs {
		if r.inv < ret {
			variants[r.variant] = true
		}
		if r.ret > 0 && r.ret < inv {
			completedBefore = true
		} else {
			quiescent = false
		}
	}
	emptyOK = !completedBefore
	if quiescent && len(regs) > 0 {
		// only registrations not strictly followed by another may be seen
		latest := map[int]bool{}
		for _, r := range regs {
			followed := false
			for _, r2 := range regs {
				if r2 != r && r2.inv > r.ret {
					followed = true
				}
			}
			if !followed {
				latest[r.variant] = true
			}
		}
		return latest, false, true
	}
	return variants, emptyOK, false
}

func (rr *RegRun) CheckC17() *Violation {
	v := func(sig, format string, args ...interface{}) *Violation {
		return &Violation{Property: "C17", Signature: "C17/" + sig, Detail: fmt.Sprintf(format, args...)}
	}
	for _, o := range rr.hist {
		if o.ret == 0 {
			continue
		}
		switch o.kind {
		case "named":
			if isBuiltin(o.name) && !rr.isPool(o.name) {
				if o.got == decoration.EmptyDecoration {
					return v("builtin-missing", "Named(%q) returned the empty decoration", o.name)
				}
				continue
			}
			if !rr.isPool(o.name) {
				if o.got != decoration.EmptyDecoration {
					return v("unknown-name-found", "Named(%q) returned a decoration for a name never registered", o.name)
				}
				continue
			}
			vars, emptyOK, latest := rr.allowed(o.name, o.inv, o.ret)
			if o.got == decoration.EmptyDecoration {
				if !emptyOK && !vars[emptyVariant] {
					return v("lookup-lost-registration", "Named(%q) at [%d,%d] returned the empty decoration although a registration of it had completed", o.name, o.inv, o.ret)
				}
				continue
			}
			ok := false
			for vv := range vars {
				if o.got == variantDeco(vv) {
					ok = true
				}
			}
			if !ok {
				sig := "lookup-never-registered-value"
				if latest {
					sig = "lookup-stale-after-quiescence"
				}
				return v(sig, "Named(%q) at [%d,%d] returned decoration with corner %q; allowed variants %v", o.name, o.inv, o.ret, o.got.TopLeft, keysOf(vars))
			}
		case "names":
			if !sort.StringsAreSorted(o.list) {
				return v("listing-unsorted", "RegisteredDecorationNames() at [%d,%d] is not sorted", o.inv, o.ret)
			}
			for i := 1; i < len(o.list); i++ {
				if o.list[i] == o.list[i-1] {
					return v("listing-duplicate", "RegisteredDecorationNames() lists %q twice", o.list[i])
				}
			}
			have := map[string]bool{}
			for _, n := range o.list {
				have[n] = true
			}
			for _, b := range builtinDecos {
				if !have[b] {
					return v("listing-missing-builtin", "RegisteredDecorationNames() at [%d,%d] lacks built-in %q", o.inv, o.ret, b)
				}
			}
			for _, p := range rr.pool {
				regs := rr.regsOf(p)
				completed, invoked := false, false
				for _, r := range regs {
					if r.ret > 0 && r.ret < o.inv {
						completed = true
					}
					if r.inv < o.ret {
						invoked = true
					}
				}
				if completed && !have[p] {
					return v("listing-missing-registered", "RegisteredDecorationNames() at [%d,%d] lacks %q whose registration had completed", o.inv, o.ret, p)
				}
				if !invoked && have[p] {
					return v("listing-phantom", "RegisteredDecorationNames() at [%d,%d] lists %q before any registration of it was invoked", o.inv, o.ret, p)
				}
			}
			for _, n := range rr.never {
				if n == "" && emptyNameRegisteredInThisProcess {
					continue // an earlier run of this process registered it; the registry cannot forget
				}
				if have[n] {
					return v("listing-phantom", "RegisteredDecorationNames() lists %q which was never registered", n)
				}
			}
		case "setdeco":
			known := isBuiltin(o.name)
			if rr.isPool(o.name) {
				_, emptyOK, _ := rr.allowed(o.name, o.inv, o.ret)
				regs := rr.regsOf(o.name)
				anyInvoked := false
				for _, r := range regs {
					if r.inv < o.ret {
						anyInvoked = true
					}
				}
				vars0, _, _ := rr.allowed(o.name, o.inv, o.ret)
				if o.err && !emptyOK && !vars0[emptyVariant] {
					return v("setdeco-error-for-registered", "SetDecorationNamed(%q) at [%d,%d] failed although a registration had completed", o.name, o.inv, o.ret)
				}
				if !o.err && !anyInvoked {
					return v("setdeco-accepts-unregistered", "SetDecorationNamed(%q) at [%d,%d] succeeded before any registration was invoked", o.name, o.inv, o.ret)
				}
				known = !o.err
			} else if !known && !o.err {
				return v("setdeco-accepts-unknown", "SetDecorationNamed(%q) returned no error for an unknown name", o.name)
			} else if known && o.err {
				return v("setdeco-rejects-builtin", "SetDecorationNamed(%q) failed for a built-in", o.name)
			}
			if o.err {
				if !o.rerr || o.out != "" {
					return v("unknown-decoration-renders", "after SetDecorationNamed(%q) failed, Render returned err=%v and %d bytes (must refuse)", o.name, o.rerr, len(o.out))
				}
				continue
			}
			if o.rerr || o.out == "" {
				return v("known-decoration-refused", "after SetDecorationNamed(%q) succeeded, Render returned err=%v and %d bytes", o.name, o.rerr, len(o.out))
			}
			if rr.isPool(o.name) {
				vars, _, _ := rr.allowed(o.name, o.inv, o.ret)
				ok := false
				for vv := range vars {
					if vv != emptyVariant && strings.Contains(o.out, variantGlyph(vv)) {
						ok = true
					}
				}
				if !ok {
					return v("render-wrong-decoration", "table set to %q at [%d,%d] rendered with glyphs of no allowed registration %v: %q", o.name, o.inv, o.ret, keysOf(vars), firstLine(o.out))
				}
			}
		}
	}
	return nil
}

func keysOf(m map[int]bool) []int {
	var out []int
	for k := range m {
		out = append(out, k)
	}
	sort.Ints(out)
	return out
}

func firstLine(s string) string {
	if i := strings.IndexByte(s, '\n'); i >= 0 {
		return s[:i]
	}
	return s
}

// ---------------------------------------------------------------------------
// C19 probe: the style listing and the style-string grammar, in the registry
// state reached so far.  inflight says whether other tasks may be registering
// concurrently (then the listing is only checked for containment).

var subPkgs = []string{"csv", "html", "json", "markdown"}

func typeName(t auto.RenderTable) string {
	switch t.(type) {
	case *csv.CSVTable:
		return "csv"
	case *html.HTMLTable:
		return "html"
	case *json.JSONTable:
		return "json"
	case *markdown.MarkdownTable:
		return "markdown"
	case *texttable.TextTable:
		return "texttable"
	}
	return fmt.Sprintf("%T", t)
}

func fill(t tabular.Table) {
	t.AddHeaders("h1", "h2")
	t.AddRowItems("a", "b")
	t.AddRowItems("c", "d")
}

func caseVariants(s string) []string {
	up := strings.ToUpper(s)
	title := strings.ToUpper(s[:1]) + s[1:]
	alt := []byte(s)
	for i := range alt {
		if i%2 == 1 && alt[i] >= 'a' && alt[i] <= 'z' {
			alt[i] -= 32
		}
	}
	return []string{s, up, title, string(alt)}
}

var trailers = []string{"", ".x", "..", ".a.b", ".utf8-light", ".csv", ". ", ".a\nb", ".\x00"}

func (rr *RegRun) ProbeC19(registered map[string]int, inflight bool, trailerSeed int) *Violation {
	v := func(sig, format string, args ...interface{}) *Violation {
		return &Violation{Property: "C19", Signature: "C19/" + sig, Detail: fmt.Sprintf(format, args...)}
	}
	styles := auto.ListStyles()
	rr.Probes["probe"]++
	if !sort.StringsAreSorted(styles) {
		return v("listing-unsorted", "ListStyles() is not sorted: %q", styles)
	}
	have := map[string]bool{}
	for _, s := range styles {
		have[s] = true
	}
	for _, p := range subPkgs {
		if !have[p] {
			return v("listing-missing-subpackage", "ListStyles() lacks %q", p)
		}
	}
	for _, b := range builtinDecos {
		if !have[b] {
			return v("listing-missing-builtin", "ListStyles() lacks built-in decoration %q", b)
		}
	}
	for n := range registered {
		if !have[n] {
			return v("listing-missing-registered", "ListStyles() lacks %q, which the application registered", n)
		}
	}
	if !inflight {
		for _, p := range rr.pool {
			if _, ok := registered[p]; !ok && have[p] {
				return v("listing-phantom", "ListStyles() lists %q, which was not registered", p)
			}
		}
	}
	// a decoration whose name reads as a sub-package style: the sub-package
	// clause decides (that renderer, trailing section ignored); it is listed and
	// it renders, and that is all the statement says about it
	if _, ok := registered[rr.subPkgNamed]; ok {
		if !have[rr.subPkgNamed] {
			return v("listing-missing-registered", "ListStyles() lacks %q, which the application registered", rr.subPkgNamed)
		}
		t := auto.New(rr.subPkgNamed)
		fill(t)
		out, err := t.Render()
		if typeName(t) != "html" {
			return v("subpackage-not-selected", "auto.New(%q) is a %s: a sub-package name selects that renderer and ignores trailing sections, whatever decorations are registered", rr.subPkgNamed, typeName(t))
		}
		if err != nil || out == "" {
			return v("listed-style-fails", "auto.New(%q).Render() returned err=%v", rr.subPkgNamed, err)
		}
		// behind the texttable prefix the same string is a decoration name and nothing else
		if !inflight {
			pt := auto.New("texttable." + rr.subPkgNamed)
			fill(pt)
			pout, perr := pt.Render()
			if typeName(pt) != "texttable" || perr != nil || !strings.Contains(pout, variantGlyph(registered[rr.subPkgNamed])) {
				return v("prefixed-name-not-a-decoration", "auto.New(%q) must select the decoration registered under %q (is a %s, err %v): %q", "texttable."+rr.subPkgNamed, rr.subPkgNamed, typeName(pt), perr, firstLine(pout))
			}
		}
		delete(registered, rr.subPkgNamed)
		defer func() { registered[rr.subPkgNamed] = 0 }()
	}
	// one table wrapped twice through auto: the second wrapper must not inherit
	// anything from the first
	{
		base := tabular.New()
		fill(base)
		first := builtinDecos[pick(len(builtinDecos), trailerSeed)]
		if first == decoration.D_UTF8_HEAVY {
			first = decoration.D_ASCII_SIMPLE
		}
		auto.Wrap(base, first).Render()
		got, err := auto.Wrap(base, "texttable").Render()
		fresh := tabular.New()
		fill(fresh)
		want, _ := auto.Wrap(fresh, "texttable").Render()
		if err != nil || got != want {
			return v("second-wrap-inherits", "a table wrapped as %q and then as \"texttable\" renders differently from a table only ever wrapped as \"texttable\" (err %v): %q", first, err, firstLine(got))
		}
	}
	// every listed name that belongs to this run (or is built in) constructs and renders
	for _, s := range styles {
		if !(isBuiltin(s) || rr.isPool(s) || isSubPkg(s)) {
			continue // a name left behind by another run in this process
		}
		t := auto.New(s)
		fill(t)
		out, err := t.Render()
		if err != nil || out == "" {
			sig := "listed-style-fails"
			if strings.Contains(s, ".") {
				sig = "listed-name-with-dot-not-constructible"
			}
			return v(sig, "ListStyles() advertises %q but auto.New(%q).Render() returned err=%v, %d bytes", s, s, err, len(out))
		}
		if variant, ok := registered[s]; ok && !inflight {
			if !strings.Contains(out, variantGlyph(variant)) {
				return v("listed-style-wrong-decoration", "auto.New(%q) did not render with the decoration registered under that name (variant %d): %q", s, variant, firstLine(out))
			}
			rr.Probes["registered_style_rendered"]++
		}
	}
	// sub-package names: case-insensitive, trailing sections ignored
	for _, p := range subPkgs {
		ref := auto.New(p)
		fill(ref)
		refOut, refErr := ref.Render()
		for _, cv := range caseVariants(p) {
			tr := trailers[pick(len(trailers), trailerSeed)]
			trailerSeed++
			for _, style := range []string{cv, cv + tr} {
				t := auto.New(style)
				if typeName(t) != p {
					return v("subpackage-not-selected", "auto.New(%q) is a %s, want the %s renderer", style, typeName(t), p)
				}
				fill(t)
				out, err := t.Render()
				if out != refOut || (err != nil) != (refErr != nil) {
					return v("subpackage-output-differs", "auto.New(%q) renders differently from auto.New(%q)", style, p)
				}
			}
		}
	}
	// texttable.NAME and NAME select the same decoration; plain texttable is the default
	names := append([]string{}, builtinDecos...)
	if !inflight { // a concurrent overwrite between the two constructions would legitimately differ
		for n := range registered {
			names = append(names, n)
		}
	}
	sort.Strings(names)
	for _, n := range names {
		prefix := []string{"texttable.", "TextTable.", "TEXTTABLE."}[pick(3, trailerSeed+len(n))]
		a, b := auto.New(n), auto.New(prefix+n)
		if typeName(a) != "texttable" || typeName(b) != "texttable" {
			return v("decoration-name-not-texttable", "auto.New(%q)/auto.New(%q) are %s/%s", n, prefix+n, typeName(a), typeName(b))
		}
		fill(a)
		fill(b)
		ao, ae := a.Render()
		bo, be := b.Render()
		if ae != nil || be != nil || ao != bo || ao == "" {
			return v("prefixed-name-differs", "auto.New(%q) and auto.New(%q) render differently (err %v / %v)", n, prefix+n, ae, be)
		}
		direct := texttable.Wrap(smallTable())
		if _, err := direct.SetDecorationNamed(n); err == nil && !inflight {
			if do, _ := direct.Render(); do != ao {
				return v("auto-differs-from-direct", "auto.New(%q) renders differently from texttable with SetDecorationNamed(%q)", n, n)
			}
		}
	}
	for _, style := range []string{"texttable", "TextTable", "TEXTTABLE"} {
		d := auto.New(style)
		fill(d)
		do, derr := d.Render()
		wo, werr := texttable.Render(smallTable())
		if typeName(d) != "texttable" || derr != nil || werr != nil || do != wo {
			return v("plain-texttable-not-default", "auto.New(%q) does not render like texttable's default (err %v)", style, derr)
		}
	}
	// unknown names fail closed
	for _, u := range append([]string{"texttable." + rr.prefix + "never", "texttable.", "csvx", "x.csv", "texttable.texttable", "texttable.json", "TextTable.csv.x", "texttable.markdown", "texttablex", "TextTable2", "texttable-wide", "csv2", "jsonx",
		// letters that only Unicode case FOLDING equates with ASCII ones (long s, Kelvin sign) are other letters
		"c\u017fv", "j\u017fon", "C\u017fV.x", "mar\u212adown\u017f"}, rr.never...) {
		t := auto.New(u)
		fill(t)
		out, err := t.Render()
		if err == nil || out != "" {
			return v("unknown-style-renders", "auto.New(%q).Render() returned err=%v and %d bytes; an unknown name must fail", u, err, len(out))
		}
	}
	return nil
}

func isSubPkg(s string) bool {
	for _, p := range subPkgs {
		if p == s {
			return true
		}
	}
	return false
}
