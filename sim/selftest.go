package sim

import (
	"fmt"
	"os"
	"os/exec"
	"strings"
	"sync"
)

// RunSelfTest is the determinism self-test: for every engine, a sample of
// runs is executed in three fresh processes under GOMAXPROCS 1, 4 and 16 and
// the per-run lines (script hash, event-log hash, event count, verdict) must
// be identical.  Any difference is harness trouble (exit 2).
func RunSelfTest(exe string, n int) int {
	var mu sync.Mutex
	var wg sync.WaitGroup
	bad := false
	for _, id := range EngineIDs() {
		wg.Add(1)
		go func(id string) {
			defer wg.Done()
			if !selfTestOne(exe, id, n) {
				mu.Lock()
				bad = true
				mu.Unlock()
			}
		}(id)
	}
	wg.Wait()
	if bad {
		return 2
	}
	return 0
}

func selfTestOne(exe, id string, n int) bool {
	bad := false
	{
		count := n
		if id == "C15" {
			count = n / 16
		}
		var outs []string
		for _, procs := range []string{"1", "4", "16"} {
			cmd := exec.Command(exe, "loghash", id, "quick", "0", fmt.Sprint(count))
			cmd.Env = append(os.Environ(), "GOMAXPROCS="+procs)
			b, err := cmd.Output()
			if err != nil {
				fmt.Fprintf(os.Stderr, "selftest: %s under GOMAXPROCS=%s failed: %v\n", id, procs, err)
				bad = true
				break
			}
			outs = append(outs, string(b))
		}
		if len(outs) == 3 && (outs[0] != outs[1] || outs[0] != outs[2]) {
			bad = true
			a, b := strings.Split(outs[0], "\n"), strings.Split(outs[2], "\n")
			for i := range a {
				if i < len(b) && a[i] != b[i] {
					fmt.Fprintf(os.Stderr, "selftest: %s NOT deterministic: %q vs %q\n", id, a[i], b[i])
					break
				}
			}
		} else if len(outs) == 3 {
			fmt.Printf("selftest: %s deterministic over %d runs x 3 processes (GOMAXPROCS 1/4/16)\n", id, count)
		}
	}
	return !bad
}
