package sim

import (
	"fmt"
	"strings"
)

func isErrOp(op string) bool {
	switch op {
	case "rowError", "tableError", "tableErrList", "ecNew", "ecAdd", "ecAddList", "ecScrub", "sepAdd", "errBurst":
		return true
	}
	return false
}

func isPropOp(op string) bool {
	switch op {
	case "setProp", "copyCell", "addCopy", "takeHandle", "nestCell", "updateCell":
		return true
	}
	return false
}

// genRegister draws a registration step.
// firingCombos are the (owner, time, target) registrations that are ever invoked.
var firingCombos = [][3]int{
	{ownTable, 0, 2}, {ownTable, 0, 1}, {ownTable, 1, 0}, {ownTable, 3, 0}, {ownTable, 1, 1}, {ownTable, 2, 1}, {ownTable, 3, 1},
	{ownColumn, 0, 1}, {ownColumn, 1, 0}, {ownColumn, 3, 0}, {ownColumn, 1, 1}, {ownColumn, 3, 1},
	{ownRow, 0, 1}, {ownRow, 0, 0}, {ownRow, 1, 0}, {ownRow, 3, 0}, {ownRow, 1, 1}, {ownRow, 3, 1}, {ownRow, 0, 1},
	{ownCell, 2, 0},
}

func genRegister(r *Rng, failing bool, marker bool) Step {
	st := Step{Op: "register", A: r.Pick([]int{4, 3, 4, 3, 1}), B: r.Intn(6), C: r.Intn(4), D: r.Intn(3)}
	if r.Chance(1, 8) {
		st.E |= 16 // registered as an uncomparable value
	}
	if r.Chance(2, 3) {
		c := firingCombos[r.Intn(len(firingCombos))]
		st.A, st.C, st.D = c[0], c[1], c[2]
		if r.Chance(1, 2) {
			st.B = r.Intn(2)
		}
	}
	if marker {
		st.E |= 1
	}
	if r.Chance(1, 16) {
		st.E |= 32 // a time or target value outside the defined constants: refused for every owner
	}
	if r.Chance(1, 8) {
		st.E |= 64 // row owners: a separator row, if the table has one
	}
	if failing {
		switch r.Intn(4) {
		case 0: // every invocation fails (runs past the container's initial capacity)
			for i := 0; i < r.Range(1, 16); i++ {
				st.Plan = append(st.Plan, i)
			}
		default:
			for i := 0; i < 12; i++ {
				if r.Chance(1, 3) {
					st.Plan = append(st.Plan, i)
				}
			}
		}
	}
	return st
}

func genRenderStep(r *Rng, faultPct int) Step {
	st := Step{Op: "render", A: r.Intn(NFormats), B: r.Intn(NDecoChoices), C: r.Intn(NVia), D: r.Intn(16), E: r.Intn(2)}
	if r.Intn(100) < faultPct {
		st.E = 1
		st.Plan = []int{r.Intn(12), 1 + r.Intn(4), r.Range(1, 99), r.Pick([]int{4, 1, 1, 1, 1})}
	}
	return st
}

// ---------------------------------------------------------------------------
// C11

type engC11 struct{}

func init() { Register(engC11{}) }

func (engC11) ID() string    { return "C11" }
func (engC11) Level() string { return "exploration" }
func (engC11) Runs(tier string) int {
	if tier == "thorough" {
		return 40000000
	}
	return 40000
}
func (engC11) Rule() string {
	return "seeded swarm histories of 0-24 steps. About a third are container-only histories (NewErrorContainer / zero value / nil pointer x AddError(nil|e) x AddErrorList(fresh lists with nil entries in any position, nil slice, the container's own Errors(), another container's Errors(), a previously passed list reused or scrubbed by the caller, lists longer than the starting capacity, non-nil error values that hold a nil pointer)). The rest are table-building histories with injected faults: row.AddError on detached and attached rows, table.AddError/AddErrorList, Row.Add on a separator (misuse), and SimCallbacks registered at any (owner x time x target) that return a unique sentinel error at scripted invocations, at add time (before and after the row is attached) and during render passes (InvokeRenderCallbacks or any renderer). After every step every error list is compared with the model (exactly once, per-source order, nil-or-non-empty, no nil entries). Non-trivial = at least one fault fired; distinct = distinct (model shape, number of expected errors, container sizes)."
}
func (engC11) Assumptions() []string {
	return []string{
		"every injected error is a unique sentinel, so 'exactly once' is decidable by identity; library-minted errors (misuse) are counted",
		"order is only demanded between errors of the same source (one registration, one row, one container), as the statement says",
		"a caller may reuse or clear a slice after passing it to AddErrorList; the container must not change because of that",
		"a panic in a renderer during a render step is C09's; the run is cut and counted as foreign",
	}
}

func (engC11) Gen(r *Rng, s *Script, idx int, tier string) {
	s.Config["kind"] = r.Intn(7)
	n := r.Range(0, 24)
	if tier == "thorough" && r.Chance(1, 3) {
		n = r.Range(20, 60)
	}
	s.Config["steps"] = n
	ctr := 0
	if r.Chance(1, 3) {
		s.Config["containers_only"] = 1
		for i := 0; i < n; i++ {
			var st Step
			switch r.Pick([]int{3, 4, 6, 1}) {
			case 0:
				st = Step{Op: "ecNew", A: r.Intn(3)}
			case 1:
				st = Step{Op: "ecAdd", A: r.Intn(3), B: r.Pick([]int{4, 1, 1})}
			case 2:
				st = Step{Op: "ecAddList", A: r.Intn(3), B: r.Pick([]int{6, 1, 1, 2, 1}), C: r.Intn(3)}
				for j := r.Range(0, 5); j > 0; j-- {
					st.Plan = append(st.Plan, r.Pick([]int{1, 2}))
				}
				if r.Chance(1, 12) {
					for j := 0; j < 12; j++ {
						st.Plan = append(st.Plan, 1)
					}
				}
			default:
				st = Step{Op: "ecScrub", A: r.Intn(3)}
			}
			if i == 0 {
				st = Step{Op: "ecNew", A: r.Intn(3)}
			}
			if i > 0 && r.Chance(1, 60) {
				st = Step{Op: "errBurst", A: 2, B: r.Intn(3), C: []int{11, 33, 65, 130, 1100}[r.Intn(5)]}
			}
			s.Steps = append(s.Steps, st)
		}
		return
	}
	m := drawBuildMix(r)
	m.sepAdd += 1
	if r.Chance(1, 4) {
		// a row that collects callback and direct errors while still detached
		s.Config["detached_row_scenario"] = 1
		s.Steps = append(s.Steps, Step{Op: "newRow", A: r.Intn(3), B: r.Intn(6)})
		reg := Step{Op: "register", A: ownRow, B: 0, C: 0, D: 1}
		for i := 0; i < 6; i++ {
			if r.Chance(1, 2) {
				reg.Plan = append(reg.Plan, i)
			}
		}
		s.Steps = append(s.Steps, reg)
		for i := r.Range(1, 5); i > 0; i-- {
			if r.Chance(1, 4) {
				s.Steps = append(s.Steps, Step{Op: "rowError", A: 0})
			}
			s.Steps = append(s.Steps, Step{Op: "rowAdd", A: 0, Items: genItems(r, 1, 0, &ctr)})
		}
		if r.Chance(3, 4) {
			s.Steps = append(s.Steps, Step{Op: "attach"})
		}
	}
	if r.Chance(1, 12) {
		// the zero value of Row: a cell it refuses is misuse, and misuse is reported
		s.Config["zero_value_row_scenario"] = 1
		s.Steps = append(s.Steps, Step{Op: "newRow", A: 3})
		for i := r.Range(1, 2); i > 0; i-- {
			s.Steps = append(s.Steps, Step{Op: "rowAdd", A: 0, Items: genItems(r, 1, 0, &ctr)})
		}
		if r.Chance(1, 3) {
			s.Steps = append(s.Steps, Step{Op: "rowError", A: 0})
		}
		if r.Chance(3, 4) {
			s.Steps = append(s.Steps, Step{Op: "attach"})
		}
	}
	if r.Chance(1, 6) {
		// a row obtained from AppendNewRow reports through the table from the start
		s.Config["append_new_row_scenario"] = 1
		s.Steps = append(s.Steps, Step{Op: "headers", Items: genItems(r, 2, 0, &ctr)})
		s.Steps = append(s.Steps, Step{Op: "register", A: ownColumn, B: 1, C: 1 + 2*r.Intn(2), D: 1, Plan: []int{0, 1, 2, 3}})
		s.Steps = append(s.Steps, Step{Op: "appendNewRow"})
		s.Steps = append(s.Steps, Step{Op: "register", A: ownRow, B: 0, C: 0, D: 1, Plan: []int{0, 2}})
		for i := r.Range(1, 3); i > 0; i-- {
			s.Steps = append(s.Steps, Step{Op: "rowAdd", A: 0, Items: genItems(r, 1, 0, &ctr)})
		}
		s.Steps = append(s.Steps, Step{Op: "invokeRC"})
	}
	errW := r.Range(1, 6)
	regW := r.Range(1, 4)
	renW := r.Range(0, 3)
	if r.Chance(1, 50) {
		s.Steps = append(s.Steps, Step{Op: "errBurst", A: r.Intn(2), C: []int{11, 33, 65, 130, 1100}[r.Intn(5)]})
		if r.Chance(1, 2) {
			s.Steps = append(s.Steps, Step{Op: "dump"}) // printing a table that holds many errors
		}
	}
	for i := 0; i < n; i++ {
		switch r.Pick([]int{8, errW, regW, renW}) {
		case 0:
			s.Steps = append(s.Steps, genBuildStep(r, m, 0, &ctr))
		case 1:
			switch r.Intn(4) {
			case 0, 1:
				s.Steps = append(s.Steps, Step{Op: "rowError", A: r.Intn(3), B: r.Pick([]int{5, 1})})
			case 2:
				s.Steps = append(s.Steps, Step{Op: "tableError", B: r.Pick([]int{5, 1, 1})})
			default:
				st := Step{Op: "tableErrList"}
				for j := r.Range(0, 4); j > 0; j-- {
					st.Plan = append(st.Plan, r.Pick([]int{1, 2}))
				}
				s.Steps = append(s.Steps, st)
			}
		case 2:
			reg := genRegister(r, true, false)
			if r.Chance(1, 3) {
				reg.E |= 2 // all failures return one shared error value
				if len(reg.Plan) == 0 {
					reg.Plan = []int{0, 1, 2}
				}
			}
			s.Steps = append(s.Steps, reg)
			if r.Chance(1, 3) {
				s.Steps = append(s.Steps, reg) // a second registration in the very same list
			}
			if r.Chance(1, 12) {
				// a render-time callback that panics at some invocation: the errors raised
				// earlier in that pass must not be lost with it
				pr := genRegister(r, true, false)
				pr.C, pr.E = 1+r.Intn(3), pr.E|8
				s.Steps = append(s.Steps, pr)
			}
			if r.Chance(1, 4) {
				// the SAME callback (one error source) also registered at another level
				again := genRegister(r, true, false)
				again.E |= 4
				again.Plan = nil
				s.Steps = append(s.Steps, again)
			}
		default:
			if r.Chance(1, 2) {
				s.Steps = append(s.Steps, Step{Op: "invokeRC"})
			} else {
				s.Steps = append(s.Steps, genRenderStep(r, 10))
			}
		}
	}
}

func (engC11) Exec(s *Script, keepLog bool) (guarded *Result) {
	defer guardExec("C11", &guarded)
	w := NewWorld(s.Cfg("kind", 0), "utf8-light", nil, NewEventLog(keepLog))
	res := &Result{}
	runSteps(w, s.Steps, res, func(i int, st *Step) *Violation {
		if st.Op == "render" {
			ro := w.ApplyRender(st)
			if ro.Panic != nil {
				return renderPanic("C11", ro, "error_containers.go")
			}
		} else if v := w.Apply(st); v != nil {
			return nil // registration results are C13's
		}
		return w.CheckC11(st.Op)
	}, func(i int, st *Step, pi *PanicInfo) *Violation {
		if isErrOp(st.Op) || strings.HasPrefix(pi.Frame, "error_containers.go") {
			return &Violation{Property: "C11", Signature: "C11/panic@" + st.Op + ":" + pi.Frame, Detail: "panic: " + pi.Value}
		}
		return nil
	})
	nf := 0
	for _, n := range w.Faults {
		nf += n
	}
	res.NonTrivial = nf > 0
	h := newHasher()
	h.num(int(w.StateHash()))
	h.num(len(w.expErrs))
	h.num(w.unknownErr)
	for _, m := range w.ecs {
		h.num(len(m.want))
	}
	res.State = h.h
	return finish(w, res)
}

// renderPanic classifies a panic recovered inside a render step: if its
// innermost in-repo frame lies in one of the files given it belongs to this
// engine's property, otherwise it is C09's and the run is cut (foreign).
func renderPanic(prop string, ro *RenderOutcome, files ...string) *Violation {
	for _, f := range files {
		if strings.HasPrefix(ro.Panic.Frame, f) {
			return &Violation{Property: prop, Signature: prop + "/panic@render:" + ro.Panic.Frame, Detail: ro.Spec.String() + " panicked: " + ro.Panic.Value}
		}
	}
	return stopRun
}

// ---------------------------------------------------------------------------
// C12

type engC12 struct{}

func init() { Register(engC12{}) }

func (engC12) ID() string    { return "C12" }
func (engC12) Level() string { return "exploration" }
func (engC12) Runs(tier string) int {
	if tier == "thorough" {
		return 8000000
	}
	return 30000
}
func (engC12) Rule() string {
	return "seeded swarm histories of 2-30 steps mixing set / set-to-nil (gets are performed on every owner x every key after every step) over owners {table, column 0, columns, rows, live cells, by-value copies of cells (`d := *p`, element of Cells(), range copy), a copy added to a row with Row.Add, column handles taken before growth} and a pool of 19 keys that collide under sloppy comparison (int/int64/int32/uint 1, \"1\", 1.0, true, two distinct pointers to equal structs, equal structs of two named types, and keys that are the zero value of their type: 0, \"\", false, an empty struct value, 0.0) plus, in scale scenarios, up to 130 further distinct keys on one owner; values include typed nil pointers and other zero-ish values, which are values and not removals; interleaved with growth steps (rows of 9-13 cells that re-allocate the column records, late Row.Add that re-allocates a row's cells) and render steps. After every step GetProperty of every owner x key is compared with a per-owner reference map, and the number of links printed by %#v is compared with the number of keys held. Non-trivial = at least one property overwritten or removed; distinct = distinct (shape, per-owner key-count) hashes."
}
func (engC12) Assumptions() []string {
	return []string{
		"keys are non-nil and comparable (the API documents a panic otherwise)",
		"live cells are reached through CellAt before every use; only column handles and by-value copies are kept across steps (that is what the statement promises); header cells and cells of rows not yet in a table are read, never written through what Cells()/Headers() hand out",
		"stored-state growth is observed through fmt %#v without depending on its format: whenever an owner holds the same set of keys (and value width classes) as at an earlier step, the printed size of its .Props{...} part must be the same; renderer-private keys on cells are excluded by not measuring cells after a render",
	}
}

func (engC12) Gen(r *Rng, s *Script, idx int, tier string) {
	s.Config["kind"] = r.Intn(7)
	n := r.Range(2, 30)
	if tier == "thorough" && r.Chance(1, 3) {
		n = r.Range(25, 60)
	}
	s.Config["steps"] = n
	ctr := 0
	m := drawBuildMix(r)
	m.scramble, m.sepAdd = 0, 0
	m.wide = r.Chance(1, 2)
	nkeys := r.Range(2, 19)
	buildW := r.Range(1, 5)
	copyW := r.Range(0, 3)
	if r.Chance(1, 10) {
		s.Config["header_shrink_scenario"] = 1
		wide := r.Range(3, 6)
		s.Steps = append(s.Steps, Step{Op: "headers", Items: genItems(r, wide, 0, &ctr)})
		s.Steps = append(s.Steps, Step{Op: "takeHandle", A: wide}, Step{Op: "setProp", A: 0, C: r.Intn(4), D: 1})
		s.Steps = append(s.Steps, Step{Op: "takeHandle", A: wide - 1}, Step{Op: "setProp", A: 0, C: r.Intn(4), D: 1})
		s.Steps = append(s.Steps, Step{Op: "headers", Items: genItems(r, r.Range(0, 2), 0, &ctr)})
		s.Steps = append(s.Steps, Step{Op: "rowItems", Items: genItems(r, wide, 0, &ctr)})
		s.Steps = append(s.Steps, Step{Op: "setProp", A: r.Intn(2), C: r.Intn(4), D: 1})
	}
	if r.Chance(1, 8) {
		// one cell holding many keys at once, then copied, then both sides edited
		s.Config["many_keys_scenario"] = 1
		s.Steps = append(s.Steps, Step{Op: "rowItems", Items: genItems(r, 1, 0, &ctr)})
		if r.Chance(1, 2) {
			s.Steps = append(s.Steps, genRenderStep(r, 0), Step{Op: "render", A: FmtMD, C: ViaFresh})
		}
		nk := r.Range(6, 14)
		base := 0
		if r.Chance(1, 4) {
			nk, base = []int{17, 33, 65, 70, 130}[r.Intn(5)], 100 // beyond any small fixed-size structure
			s.Config["many_keys"] = nk
		}
		for k := 0; k < nk; k++ {
			s.Steps = append(s.Steps, Step{Op: "setProp", A: 0, C: base + k, D: 1})
		}
		s.Steps = append(s.Steps, Step{Op: "copyCell", A: 0, B: r.Intn(3)})
		for k := r.Range(2, 6); k > 0; k-- {
			// the oldest keys are the interesting ones when there are many
			s.Steps = append(s.Steps, Step{Op: "setProp", A: r.Intn(2), C: base + r.Intn(1+nk/8), D: r.Pick([]int{1, 1})})
		}
		nkeys = 14
	}
	for i := 0; i < n; i++ {
		switch r.Pick([]int{buildW, 8, copyW, 1, 1}) {
		case 0:
			s.Steps = append(s.Steps, genBuildStep(r, m, 0, &ctr))
		case 1:
			a := r.Intn(6)
			if r.Chance(1, 3) {
				a = r.Intn(40)
			}
			d := r.Pick([]int{1, 2})
			if d == 1 && r.Chance(1, 8) {
				d = 3 + r.Intn(8)
			}
			s.Steps = append(s.Steps, Step{Op: "setProp", A: a, C: r.Intn(nkeys), D: d})
		case 2:
			switch r.Intn(8) {
			case 0, 1:
				s.Steps = append(s.Steps, Step{Op: "addCopy", A: r.Intn(3), B: r.Intn(3)})
			case 2:
				s.Steps = append(s.Steps, Step{Op: "nestCell", A: r.Intn(4), B: r.Intn(3)})
			case 3:
				// (B=1: the item's text changed since the cell last read it)
				s.Steps = append(s.Steps, Step{Op: "updateCell", A: r.Intn(4), B: r.Intn(2)})
			default:
				s.Steps = append(s.Steps, Step{Op: "copyCell", A: r.Intn(6), B: r.Intn(3)})
			}
		case 3:
			s.Steps = append(s.Steps, Step{Op: "takeHandle", A: r.Intn(6)})
		default:
			s.Steps = append(s.Steps, genRenderStep(r, 0))
		}
	}
	if r.Chance(1, 4) {
		// items whose text can change after they were stored (Stringers): an
		// Update() after such a change re-reads the text and nothing else
		s.Config["mutable_items"] = 1
		for i := range s.Steps {
			for j := range s.Steps[i].Items {
				if it := &s.Steps[i].Items[j]; it.K == "s" && it.S != "" {
					it.K = "S"
				}
			}
		}
	}
}

func (engC12) Exec(s *Script, keepLog bool) (guarded *Result) {
	defer guardExec("C12", &guarded)
	w := NewWorld(s.Cfg("kind", 0), "utf8-light", nil, NewEventLog(keepLog))
	res := &Result{}
	runSteps(w, s.Steps, res, func(i int, st *Step) *Violation {
		if st.Op == "render" {
			ro := w.ApplyRender(st)
			if ro.Panic != nil {
				return renderPanic("C12", ro, "properties.go")
			}
		} else {
			w.Apply(st)
		}
		return w.CheckC12(st.Op)
	}, func(i int, st *Step, pi *PanicInfo) *Violation {
		if isPropOp(st.Op) || strings.HasPrefix(pi.Frame, "properties.go") {
			return &Violation{Property: "C12", Signature: "C12/panic@" + st.Op + ":" + pi.Frame, Detail: "panic: " + pi.Value}
		}
		return nil
	})
	res.NonTrivial = w.Probes["prop_overwritten"]+w.Probes["prop_removed"] > 0
	h := newHasher()
	h.num(int(w.StateHash()))
	if w.keyPool != nil {
		for _, o := range w.ownersAll() {
			h.num(len(o.model().vals))
		}
	}
	res.State = h.h
	return finish(w, res)
}

// ---------------------------------------------------------------------------
// C13

type engC13 struct{}

func init() { Register(engC13{}) }

func (engC13) ID() string    { return "C13" }
func (engC13) Level() string { return "exploration" }
func (engC13) Runs(tier string) int {
	if tier == "thorough" {
		return 25000000
	}
	return 30000
}

var c13Shapes = [][]Step{
	{},
	{{Op: "headers", Items: []Item{{K: "s", S: "h1"}}}},
	{{Op: "rowItems", Items: []Item{{K: "s", S: "a"}}}},
	{{Op: "headers", Items: []Item{{K: "s", S: "h1"}, {K: "s", S: "h2"}}}, {Op: "rowItems", Items: []Item{{K: "s", S: "a"}, {K: "s", S: "b"}}}, {Op: "separator"}, {Op: "rowItems", Items: []Item{{K: "s", S: "c"}}}},
	{{Op: "newRow"}, {Op: "rowAdd", Items: []Item{{K: "s", S: "a"}}}, {Op: "rowAdd", Items: []Item{{K: "s", S: "b"}}}, {Op: "attach"}},
	{{Op: "appendNewRow"}, {Op: "rowAdd", Items: []Item{{K: "s", S: "a"}}}, {Op: "rowItems", Items: []Item{{K: "s", S: "b"}, {K: "s", S: "c"}, {K: "s", S: "d"}}}},
	{{Op: "rowItems", Items: []Item{}}, {Op: "rowItems", Items: []Item{{K: "s", S: "a"}, {K: "s", S: "b"}}}, {Op: "headers", Items: []Item{{K: "s", S: "h1"}}}},
}

const c13EnumRuns = 5 * 4 * 3 * 7 * 2 * 2

func (engC13) Rule() string {
	return fmt.Sprintf("run i < %d enumerates completely (5 owner kinds incl. an unknown owner x 4 times x 3 targets) x 7 small table shapes x {registered before, after the rows exist} x {owner index 0, 1}, each followed by two render passes; later runs are seeded swarm histories of 2-22 steps with one to three marker-setting SimCallback registrations drawn from the full matrix (some the same callback at two levels, some registered twice in one list, some values of an uncomparable type, some on cell values that are then copied into several rows so that their lists could alias), building steps (incl. Row.Add before/after attach, repeated AddHeaders, separators) and 1-4 render passes (InvokeRenderCallbacks directly or through any renderer); scale scenarios use rows of 258 cells and empty-text items. The recorded callback event history of every step is compared with the reference traversal: exact ordered sequence for render passes, exactly-once counts at add time, liveness of the object handed over (pointer identity at invocation + marker property visible through the table afterwards), and the accept/refuse result of every registration. Non-trivial = at least one listed callback event was checked; distinct = distinct (shape, registration set, number of passes) hashes.", c13EnumRuns)
}
func (engC13) Assumptions() []string {
	return []string{
		"combinations the statement does not list are only required to fire at most once per target per pass: callbacks on the defaults column 0, column-level cell callbacks on header cells, row-itself callbacks at add time, any 'itself' callback at plain render time, row-targeted table callbacks at render time, table/column cell callbacks for a cell added after its row was attached",
		"at add time only counts per (registration, target) are compared (the statement fixes a nesting order only for render time)",
		"cells are identified by their (unique) item, rows and the table by pointer, columns by pointer or, for a copy, by an identity property set on the real column",
		"only CellAt is taken to hand out the cell itself: cells of rows in the table are compared by address and written/registered through CellAt; header cells and cells of rows not yet in a table are only read (what Cells()/Headers() hand out may be copies), and for them 'live' means: what the callback set is visible afterwards",
		"table/column add-time cell callbacks for a cell added to an already attached row, and any callbacks during a render that is refused (returns an error) before firing a single one, are optional",
		"render-time callbacks may panic once (scripted); the pass they cut short is not compared, later passes are",
	}
}

func (engC13) Gen(r *Rng, s *Script, idx int, tier string) {
	s.Config["kind"] = 0
	if idx < c13EnumRuns {
		s.Config["enum"] = 1
		i := idx
		target := i % 3
		i /= 3
		time := i % 4
		i /= 4
		owner := i % 5
		i /= 5
		shape := i % len(c13Shapes)
		i /= len(c13Shapes)
		before := i % 2
		i /= 2
		ref := i % 2
		reg := Step{Op: "register", A: owner, B: ref, C: time, D: target, E: 1}
		build := cloneSteps(c13Shapes[shape])
		c := 0
		for k := range build {
			for j := range build[k].Items {
				c++
				build[k].Items[j].S = fmt.Sprintf("v%d", c)
			}
		}
		if before == 1 {
			// registrations on rows/cells need the object: register after the first step
			cut := 0
			if owner == ownRow || owner == ownCell || owner == ownColumn {
				cut = 1
				if len(build) > 1 && (build[0].Op == "newRow" || build[0].Op == "appendNewRow") {
					cut = 2
				}
			}
			if cut > len(build) {
				cut = len(build)
			}
			s.Steps = append(s.Steps, build[:cut]...)
			s.Steps = append(s.Steps, reg)
			s.Steps = append(s.Steps, build[cut:]...)
		} else {
			s.Steps = append(s.Steps, build...)
			s.Steps = append(s.Steps, reg)
		}
		s.Steps = append(s.Steps, Step{Op: "invokeRC"}, Step{Op: "render", A: idx % NFormats, C: ViaFresh})
		return
	}
	s.Config["kind"] = r.Pick([]int{6, 1, 1, 1, 1, 1, 1})
	n := r.Range(2, 22)
	if tier == "thorough" && r.Chance(1, 3) {
		n = r.Range(18, 50)
	}
	s.Config["steps"] = n
	ctr := 0
	m := drawBuildMix(r)
	m.scramble = 0
	nreg := r.Range(1, 3)
	panicky := r.Chance(1, 10) // a render-time callback that panics once; the caller recovers and renders again
	failing := r.Chance(1, 3)  // callbacks that return errors must not disturb the traversal
	same := r.Chance(1, 4) || (failing && r.Chance(1, 2))
	s.Config["failing_callbacks"] = map[bool]int{false: 0, true: 1}[failing]
	regAt := map[int]bool{}
	for k := 0; k < nreg; k++ {
		regAt[r.Intn(n)] = true
	}
	if r.Chance(1, 10) {
		// k registrations on one cell, the cell copied by value, one more on each side
		s.Config["callback_list_aliasing_scenario"] = 1
		s.Steps = append(s.Steps, Step{Op: "rowItems", Items: genItems(r, 1, 0, &ctr)})
		uncomparable := 0
		if r.Chance(1, 3) {
			uncomparable = 16
		}
		for k := []int{1, 2, 3, 3, 5, 6, 7, 9, 11}[r.Intn(9)]; k > 0; k-- {
			s.Steps = append(s.Steps, Step{Op: "register", A: ownCell, B: 0, C: 2, D: r.Intn(2), E: 1 | uncomparable})
		}
		s.Steps = append(s.Steps, Step{Op: "copyCell", A: 0, B: r.Intn(3)})
		s.Steps = append(s.Steps, Step{Op: "register", A: ownCell, B: 0, C: 2, D: 0, E: 1})
		s.Steps = append(s.Steps, Step{Op: "register", A: ownCellValue, B: 0, C: 2, D: 0, E: 1})
		s.Steps = append(s.Steps, Step{Op: "addCopy", A: 0, B: 0}, Step{Op: "invokeRC"})
	}
	if r.Chance(1, 40) {
		// a row wider than a byte can count, with callbacks on columns around the boundary
		s.Config["wide_row_scenario"] = 1
		wide := make([]Item, 258)
		for i := range wide {
			ctr++
			wide[i] = Item{K: "i", N: 5000 + ctr}
		}
		s.Steps = append(s.Steps, Step{Op: "rowItems", Items: wide})
		for _, col := range []int{1, 255, 256, 257} {
			s.Steps = append(s.Steps, Step{Op: "register", A: ownColumn, B: col, C: 1 + 2*r.Intn(2), D: 1, E: 1})
		}
		s.Steps = append(s.Steps, Step{Op: "invokeRC"})
	}
	updates := r.Chance(1, 4)
	byValue := r.Chance(1, 4) // cell-owned callbacks travelling with by-value copies of a cell
	kept := -1                // render passes through one wrapper the caller keeps
	if r.Chance(1, 3) {
		kept = r.Intn(NFormats)
	}
	s.Config["by_value_cells"] = map[bool]int{false: 0, true: 1}[byValue]
	for i := 0; i < n; i++ {
		if byValue && i > 1 && r.Chance(1, 3) {
			switch r.Intn(4) {
			case 0:
				s.Steps = append(s.Steps, Step{Op: "copyCell", A: r.Intn(3), B: r.Intn(3)})
			case 1:
				s.Steps = append(s.Steps, Step{Op: "register", A: ownCellValue, B: r.Intn(2), C: 2, D: r.Intn(2), E: 1})
			case 2:
				s.Steps = append(s.Steps, Step{Op: "addCopy", A: r.Intn(2), B: r.Intn(3)})
			default:
				s.Steps = append(s.Steps, Step{Op: "register", A: ownCell, B: r.Intn(3), C: 2, D: r.Intn(2), E: 1})
			}
			continue
		}
		if regAt[i] {
			if panicky {
				pr := genRegister(r, false, true)
				pr.C, pr.E = 1+r.Intn(3), pr.E|8
				s.Steps = append(s.Steps, pr)
				panicky = false
				continue
			}
			s.Steps = append(s.Steps, genRegister(r, failing, true))
			if same && len(s.Steps) > 0 {
				// a second registration in the very same list as the first
				if r.Chance(1, 2) {
					s.Steps[len(s.Steps)-1].E |= 16 // ... both as uncomparable values
				}
				dup := s.Steps[len(s.Steps)-1]
				dup.Plan = nil
				s.Steps = append(s.Steps, dup)
			}
			continue
		}
		if i > n/2 && r.Chance(1, 4) {
			if r.Chance(1, 2) && kept < 0 {
				s.Steps = append(s.Steps, Step{Op: "invokeRC"})
			} else {
				st := genRenderStep(r, 0)
				if kept >= 0 && r.Chance(2, 3) {
					st.A, st.C = kept, ViaReused
				}
				s.Steps = append(s.Steps, st)
			}
			continue
		}
		if byValue && r.Chance(1, 6) {
			s.Steps = append(s.Steps, Step{Op: "foreignCopy", A: r.Intn(3)})
			continue
		}
		if updates && r.Chance(1, 5) {
			// the caller re-reads a cell's item: the cell stays where it is and what it is
			s.Steps = append(s.Steps, Step{Op: "updateCell", A: r.Intn(4)})
			continue
		}
		s.Steps = append(s.Steps, genBuildStep(r, m, 0, &ctr))
	}
	s.Steps = append(s.Steps, Step{Op: "invokeRC"})
	if r.Chance(1, 2) {
		s.Steps = append(s.Steps, genRenderStep(r, 0))
	}
	if kept >= 0 {
		s.Steps = append(s.Steps, Step{Op: "render", A: kept, C: ViaReused}, Step{Op: "render", A: kept, C: ViaReused})
	}
}

func (engC13) Exec(s *Script, keepLog bool) (guarded *Result) {
	defer guardExec("C13", &guarded)
	w := NewWorld(s.Cfg("kind", 0), "utf8-light", nil, NewEventLog(keepLog))
	res := &Result{}
	passes := 0
	checked := 0
	runSteps(w, s.Steps, res, func(i int, st *Step) *Violation {
		if st.Op == "render" {
			ro := w.ApplyRender(st)
			if ro.Panic != nil {
				return renderPanic("C13", ro, "render_callbacks.go", "properties.go:tabular.invokePropertyCallbacks")
			}
			passes++
		} else {
			if v := w.Apply(st); v != nil {
				return v
			}
			if st.Op == "invokeRC" {
				passes++
			}
		}
		checked += len(w.cbEvents)
		return w.CheckC13(st.Op)
	}, func(i int, st *Step, pi *PanicInfo) *Violation {
		if st.Op == "register" || st.Op == "invokeRC" {
			return &Violation{Property: "C13", Signature: "C13/panic@" + st.Op + ":" + pi.Frame, Detail: "panic: " + pi.Value}
		}
		return nil
	})
	res.NonTrivial = checked > 0
	w.Probes["callback_events_checked"] += checked
	h := newHasher()
	h.num(int(w.StateHash()))
	for _, cb := range w.regs {
		h.num(cb.owner*100 + cb.time*10 + cb.target)
	}
	h.num(passes)
	res.State = h.h
	return finish(w, res)
}
