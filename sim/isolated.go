package sim

import (
	"context"
	"os"
	"os/exec"
	"strings"
	"time"
)

// freshExec executes a script in a fresh process (`tabsim replay`) and
// returns the violation signature, detail and event-log hash it reports.
func freshExec(s *Script, tmp string) (sig, detail, logHash string) {
	exe, err := os.Executable()
	if err != nil {
		return "", "", ""
	}
	c := s.Clone()
	if err := c.WriteFile(tmp); err != nil {
		return "", "", ""
	}
	defer os.Remove(tmp)
	// (bounded: a candidate that hangs is not the violation being confirmed)
	ctx, cancel := context.WithTimeout(context.Background(), 2*time.Minute)
	defer cancel()
	out, _ := exec.CommandContext(ctx, exe, "replay", tmp).CombinedOutput()
	for _, line := range strings.Split(string(out), "\n") {
		if strings.HasPrefix(line, "replay: property=") {
			if i := strings.Index(line, "log_hash="); i >= 0 {
				logHash = strings.TrimSpace(line[i+len("log_hash="):])
			}
		}
		if strings.HasPrefix(line, "replay: ") && strings.Contains(line, " [") && strings.Contains(line, "] at step") {
			a := strings.Index(line, "[")
			b := strings.Index(line, "]")
			sig = line[a+1 : b]
			if k := strings.Index(line[b:], ": "); k >= 0 {
				detail = line[b+k+2:]
			}
		}
	}
	return
}

// isolatedWithPrelude: the script does not fail alone; does it fail after the
// given earlier runs, executed in the same fresh process?  If so the prelude
// is shortened from the front (halving) while the failure persists.
func isolatedWithPrelude(s *Script, sig string, tmp string, pre *Prelude) (*Script, *Result) {
	if len(pre.Indices) == 0 {
		return nil, nil
	}
	c := s.Clone()
	c.Prelude = pre
	// state that accumulates (caches, pools, recycled addresses) may need more
	// history than this worker had when it first showed: repeat the prelude
	ok := false
	for _, rep := range []int{1, 4, 16} {
		c.Prelude.Repeat = rep
		if g, _, _ := freshExec(c, tmp); g == sig {
			ok = true
			break
		}
	}
	if !ok {
		return nil, nil
	}
	for len(c.Prelude.Indices) > 1 {
		half := c.Clone()
		half.Prelude.Indices = half.Prelude.Indices[len(half.Prelude.Indices)/2:]
		if g, _, _ := freshExec(half, tmp); g != sig {
			break
		}
		c = half
	}
	g, detail, hash := freshExec(c, tmp)
	if g != sig {
		return nil, nil
	}
	return c, &Result{Violation: &Violation{Property: s.Property, Signature: sig, Detail: detail + " (after the prelude of earlier runs listed in the replay file)"}, LogHash: hash}
}

// isolatedMinimize confirms a violation in a fresh process and shrinks the
// script with one fresh process per candidate.  nil means: not reproducible.
func isolatedMinimize(s *Script, sig string, tmp string) (*Script, *Result) {
	got, _, _ := freshExec(s, tmp)
	if got != sig {
		return nil, nil
	}
	min := MinimizeWith(s, 250, func(c *Script) bool {
		g, _, _ := freshExec(c, tmp)
		return g == sig
	})
	g, detail, hash := freshExec(min, tmp)
	if g != sig {
		min = s.Clone()
		g, detail, hash = freshExec(min, tmp)
		if g != sig {
			return nil, nil
		}
	}
	return min, &Result{Violation: &Violation{Property: s.Property, Signature: sig, Detail: detail}, LogHash: hash}
}
