package sim

import (
	"errors"
	"fmt"
	"io"
	"os"
	"strconv"
	"syscall"
)

// Yielder is what a seam calls whenever the code under test crosses into
// simulator-owned code.  In single-task runs it is nil (no-op); in concurrent
// runs it parks the calling task until the scheduler releases it.
type Yielder interface {
	Yield(site string)
}

func yield(y Yielder, site string) {
	if y != nil {
		y.Yield(site)
	}
}

// ---------------------------------------------------------------------------
// SimWriter: the destination-stream seam.

const (
	FaultNone        = 0
	FaultSticky      = 1 // Write call k and every later call fail
	FaultOnce        = 2 // only Write call k fails; later calls succeed
	FaultPartial     = 3 // call k accepts a strict prefix and fails; later calls fail
	FaultPartialOnce = 4 // call k accepts a strict prefix and fails; later calls succeed
	NFaultModes      = 5
)

var faultNames = map[int]string{FaultSticky: "writer_sticky", FaultOnce: "writer_once", FaultPartial: "writer_partial", FaultPartialOnce: "writer_partial_once"}

// ErrInjected is the error a SimWriter returns at an injected fault.
var ErrInjected = errors.New("sim: injected write failure")

type SimWriter struct {
	Calls    int    // number of Write calls so far
	Accepted []byte // every byte reported as written
	Sizes    []int  // size of each Write call's argument
	FaultAt  int    // call index of the fault (0-based); ignored if Mode==FaultNone
	Mode     int
	Frac     int  // for FaultPartial: accept (len*Frac/100) bytes, at most len-1
	Fired    int  // how many calls returned an injected error
	ZeroLen  bool // the fault landed on a zero-length Write
	Y        Yielder
	asString bool
	Err      error // what an injected fault returns (default ErrInjected)
}

// faultErrors are the identities an injected write error can have: a private
// sentinel, the errors a closed pipe gives (a caller may be tempted to treat
// those as "the reader went away, fine"), io.ErrShortWrite, a wrapped one, and
// one whose dynamic type cannot be compared with == (a slice of errors, as
// multi-error types are): code that compares two such values panics; and one
// that calls itself temporary.
var faultErrors = []error{
	ErrInjected, io.ErrClosedPipe, syscall.EPIPE, io.ErrShortWrite,
	&os.PathError{Op: "write", Path: "|1", Err: syscall.EPIPE},
	severalErrors{ErrInjected, syscall.EPIPE},
	temporaryError{},
}

// temporaryError says of itself that trying again might work (as net.Error
// values do).  The writer has failed all the same: what was not written is
// not written, and a renderer that goes on must still report it.
type temporaryError struct{}

func (temporaryError) Error() string   { return "resource temporarily unavailable" }
func (temporaryError) Temporary() bool { return true }
func (temporaryError) Timeout() bool   { return true }

type severalErrors []error

func (e severalErrors) Error() string { return "several errors: " + e[0].Error() }

func (w *SimWriter) fault() error {
	if w.Err != nil {
		return w.Err
	}
	return ErrInjected
}

func (w *SimWriter) Write(p []byte) (int, error) {
	yield(w.Y, "write")
	k := w.Calls
	w.Calls++
	w.Sizes = append(w.Sizes, len(p))
	if w.Mode != FaultNone {
		switch {
		case w.Mode == FaultSticky && k >= w.FaultAt,
			w.Mode == FaultOnce && k == w.FaultAt,
			w.Mode == FaultPartial && k > w.FaultAt:
			w.Fired++
			if k == w.FaultAt && len(p) == 0 {
				w.ZeroLen = true
			}
			return 0, w.fault()
		case (w.Mode == FaultPartial || w.Mode == FaultPartialOnce) && k == w.FaultAt:
			n := 0
			if len(p) > 0 {
				n = len(p) * w.Frac / 100
				if n >= len(p) {
					n = len(p) - 1
				}
				if n < 0 {
					n = 0
				}
			} else {
				w.ZeroLen = true
			}
			w.Accepted = append(w.Accepted, p[:n]...)
			w.Fired++
			return n, w.fault()
		}
	}
	w.Accepted = append(w.Accepted, p...)
	return len(p), nil
}

// SimStringWriter is a SimWriter that also offers WriteString, which
// io.WriteString prefers; it takes the same faults at the same call indices.
type SimStringWriter struct{ SimWriter }

func (w *SimStringWriter) WriteString(s string) (int, error) { return w.Write([]byte(s)) }

// ---------------------------------------------------------------------------
// SimItems: cell contents with script-controlled text and declared sizes.

// simBase has no exported fields on purpose: encoding/json must see "{}".
type simBase struct {
	id   int
	text string
	y    Yielder
	log  *EventLog
}

func (b *simBase) base() *simBase { return b }

func (b *simBase) call(m string) {
	if b.log != nil {
		b.log.Add("item#" + strconv.Itoa(b.id) + "." + m)
	}
	yield(b.y, "item."+m)
}

type ItemStringer struct{ simBase }

func (i *ItemStringer) String() string { i.call("String"); return i.text }

type ItemGoStringer struct{ simBase }

func (i *ItemGoStringer) GoString() string { i.call("GoString"); return i.text }

type ItemError struct{ simBase }

func (i *ItemError) Error() string { i.call("Error"); return i.text }

type ItemSized struct {
	simBase
	h, w int
}

func (i *ItemSized) String() string         { i.call("String"); return i.text }
func (i *ItemSized) Height() int            { i.call("Height"); return i.h }
func (i *ItemSized) TerminalCellWidth() int { i.call("TerminalCellWidth"); return i.w }

type ItemHeight struct {
	simBase
	h int
}

func (i *ItemHeight) String() string { i.call("String"); return i.text }
func (i *ItemHeight) Height() int    { i.call("Height"); return i.h }

type ItemWidth struct {
	simBase
	w int
}

func (i *ItemWidth) String() string         { i.call("String"); return i.text }
func (i *ItemWidth) TerminalCellWidth() int { i.call("TerminalCellWidth"); return i.w }

type ItemJSON struct {
	simBase
	mode int
}

func (i *ItemJSON) String() string { i.call("String"); return i.text }
func (i *ItemJSON) MarshalJSON() ([]byte, error) {
	i.call("MarshalJSON")
	switch i.mode {
	case 1:
		return nil, fmt.Errorf("sim: item#%d refuses to marshal", i.id)
	case 2:
		return []byte("{}"), nil
	case 3:
		return []byte(strconv.Quote("j" + strconv.Itoa(i.id))), nil
	}
	return []byte(`{"id":` + strconv.Itoa(i.id) + `}`), nil
}

// MakeItem materialises a scripted Item.  id must be unique within the run.
func MakeItem(it Item, id int, y Yielder, log *EventLog) interface{} {
	b := simBase{id: id, text: it.S, y: y, log: log}
	switch it.K {
	case "s":
		if it.N >= 1000 {
			// a long text: S repeated up to N bytes
			b := make([]byte, 0, it.N)
			for len(b) < it.N {
				b = append(b, it.S...)
				b = append(b, ' ')
			}
			return string(b)
		}
		return it.S
	case "x":
		// a text of exactly N bytes (S repeated and cut)
		b := make([]byte, 0, it.N+len(it.S)+1)
		for len(b) < it.N {
			b = append(b, it.S...)
			b = append(b, '.')
		}
		return string(b[:it.N])
	case "i":
		return it.N
	case "b":
		return it.N != 0
	case "n":
		return nil
	case "f":
		return float64(it.N) / 4
	case "S":
		return &ItemStringer{b}
	case "G":
		return &ItemGoStringer{b}
	case "E":
		return &ItemError{b}
	case "Z":
		return &ItemSized{b, it.H, it.W}
	case "H":
		return &ItemHeight{b, it.H}
	case "W":
		return &ItemWidth{b, it.W}
	case "J":
		return &ItemJSON{b, it.N}
	}
	return it.S
}

// ---------------------------------------------------------------------------
// Event log: everything the seams observe, in order.  Its hash is what the
// determinism self-test compares between executions.

type EventLog struct {
	Lines []string
	Seq   int
	h     *hasher
	Keep  bool
}

func NewEventLog(keep bool) *EventLog { return &EventLog{h: newHasher(), Keep: keep} }

func (l *EventLog) Add(s string) {
	l.Seq++
	l.h.str(s)
	if l.Keep {
		l.Lines = append(l.Lines, s)
	}
}

func (l *EventLog) Hash() string { return fmt.Sprintf("%016x", l.h.h) }

// ---------------------------------------------------------------------------
// Sentinel errors injected through callbacks and rows.

type SimErr struct {
	ID    int
	Src   string
	Batch int // 0: raised straight into the table; k>0: raised on row k-1 while it was not yet in a table
}

func (e *SimErr) Error() string { return "simErr#" + strconv.Itoa(e.ID) + "(" + e.Src + ")" }
