package sim

import (
	"fmt"
	"strings"

	"go.pennock.tech/tabular"
)

// propOwner is the reference model of one owner's properties: a plain map.
type propOwner struct {
	name     string
	vals     map[interface{}]interface{}
	access   func() tabular.PropertyOwner // how to reach the owner right now
	chain    func() string                // %#v text that prints exactly this owner's chain ("" = not measurable)
	alias    *propOwner                   // a handle shares the model of what it points to
	order    []interface{}                // keys in order of their last non-nil set
	shares   bool                         // a copy whose chain links may be shared with its source
	stale    func() bool                  // handles: does Column(n) now return a different pointer?
	cell     *tabular.Cell                // copies: the caller-owned cell value
	sizes    map[string]int               // printed size of the stored state, per set of keys held
	regs     []*SimCallback               // copies: cell-owned registrations the value carries
	writable func() bool                  // live cells: is there a lookup that promises the cell itself?
}

func (p *propOwner) model() *propOwner {
	if p.alias != nil {
		return p.alias
	}
	return p
}

type keyT struct{ N int }
type keyA struct{ N int }
type keyB struct{ N int }

// newKeyPool: keys chosen to collide under sloppy comparison.
func newKeyPool() []interface{} {
	return []interface{}{
		int(1), int64(1), "1", int32(1), uint(1), int(2), "k",
		&keyT{1}, &keyT{1}, keyA{1}, keyB{1}, keyA{2}, true, 1.0,
		// keys that are the zero value of their type are keys like any other
		int(0), "", false, keyA{}, 0.0,
	}
}

// scaleKey: as many further distinct keys as a history asks for.
type scaleKey struct{ N int }

// keyAt resolves a scripted key index: the pool, or — from 100 on — a
// scaleKey, which joins the pool (and hence every later read-back) on first use.
func (w *World) keyAt(i int) interface{} {
	if i < 100 {
		return w.keyPool[pick(len(w.keyPool), i)]
	}
	k := scaleKey{i - 100}
	for _, have := range w.keyPool {
		if have == interface{}(k) {
			return k
		}
	}
	w.keyPool = append(w.keyPool, k)
	return k
}

func (w *World) ownersAll() []*propOwner {
	var out []*propOwner
	out = append(out, w.tableOwner)
	out = append(out, w.colOwners[:min(len(w.colOwners), w.Core.NColumns()+1)]...)
	for _, h := range w.handles {
		if h.real == nil {
			continue
		}
		out = append(out, w.rowOwner(h))
		for _, c := range h.cells {
			out = append(out, w.cellOwner(c))
		}
	}
	if w.headerSet {
		for _, c := range w.header.cells {
			out = append(out, w.cellOwner(c))
		}
	}
	for _, sp := range w.seps {
		if sp.real != nil {
			out = append(out, w.rowOwner(sp))
		}
	}
	out = append(out, w.extraOwn...)
	return out
}

func min(a, b int) int {
	if a < b {
		return a
	}
	return b
}

func (w *World) rowOwner(h *mRow) *propOwner {
	if h.owner == nil {
		h.owner = &propOwner{name: rowName(h), vals: map[interface{}]interface{}{}}
		h.owner.access = func() tabular.PropertyOwner { return h.real }
		h.owner.chain = func() string {
			s := fmt.Sprintf("%#v", h.real)
			if i := strings.Index(s, ".Cells{"); i >= 0 {
				return s[:i]
			}
			if h.sep || len(h.cells) == 0 {
				return s
			}
			return "" // cannot separate the row's own state from its cells': not measured
		}
	}
	return h.owner
}

func (w *World) cellOwner(c *mCell) *propOwner {
	if c.owner == nil {
		c.owner = &propOwner{name: cellName(c), vals: map[interface{}]interface{}{}}
		c.owner.access = func() tabular.PropertyOwner {
			if p := w.readPtr(c); p != nil {
				return p
			}
			return nil
		}
		c.owner.writable = func() bool { return w.addrPtr(c) != nil }
		c.owner.chain = func() string {
			if w.rendered {
				return "" // renderers keep private measurement keys on cells
			}
			if p := w.readPtr(c); p != nil {
				return fmt.Sprintf("%#v", p)
			}
			return ""
		}
	}
	return c.owner
}

func (w *World) initPropModel() {
	if w.keyPool != nil {
		return
	}
	w.keyPool = newKeyPool()
	w.tableOwner.access = func() tabular.PropertyOwner { return w.Tab }
	for n := range w.colOwners {
		w.wireColumn(n)
	}
}

func (w *World) wireColumn(n int) {
	o := w.colOwners[n]
	if o.access != nil {
		return
	}
	o.access = func() tabular.PropertyOwner {
		if c := w.Tab.Column(n); c != nil {
			return c
		}
		return nil
	}
}

func clonePropMap(m map[interface{}]interface{}) map[interface{}]interface{} {
	out := make(map[interface{}]interface{}, len(m))
	for k, v := range m {
		out[k] = v
	}
	return out
}

// DoProp executes the property-family steps.
//
//	setProp    A owner ref (into ownersAll(), from the end), C key index, D value (0 = nil, else a fresh unique int)
//	copyCell   A cell ref (0 newest), B mode 0 `d := *p`, 1 element of row.Cells(), 2 range copy
//	addCopy    A copy ref, B row ref: Row.Add(copy) — the stored cell starts with the copy's properties
//	takeHandle A column number: keep t.Column(n) for later
func (w *World) DoProp(st *Step) bool {
	switch st.Op {
	case "setProp", "copyCell", "addCopy", "takeHandle", "nestCell", "updateCell":
	default:
		return false
	}
	w.initPropModel()
	for n := range w.colOwners {
		w.wireColumn(n)
	}
	switch st.Op {
	case "setProp":
		owners := w.ownersAll()
		i := pick(len(owners), st.A)
		if i < 0 {
			return true
		}
		o := owners[len(owners)-1-i]
		if o.writable != nil && !o.writable() {
			// a header cell or a cell of a row not in a table: readable (checked
			// after every step) but nothing the API hands out is promised to be the
			// stored cell, so nothing is written through it
			return true
		}
		po := o.access()
		if po == nil {
			return true
		}
		key := w.keyAt(st.C)
		var val interface{}
		if st.D != 0 {
			w.nextVal++
			val = 1000 + w.nextVal%9000 // always four digits, unique within any realistic run
			if st.D >= 3 {
				// values that are "empty" without being the nil interface: they are
				// values like any other and must be stored and returned as set
				val = zeroishValues[pick(len(zeroishValues), st.D-3)]
				w.probe("zeroish_value_set")
			}
		}
		m := o.model()
		if _, had := m.vals[key]; had {
			if val == nil {
				w.probe("prop_removed")
			} else {
				w.probe("prop_overwritten")
			}
			if len(m.order) > 0 && m.order[len(m.order)-1] != key {
				w.probe("key_changed_below_chain_head")
			}
		} else if val == nil {
			w.probe("prop_set_nil_when_absent")
		}
		if o.alias != nil {
			w.probe("set_through_early_column_handle")
			if o.stale != nil && o.stale() {
				w.probe("handle_used_after_reallocation")
			}
		}
		if o.shares {
			w.probe("set_on_copy_sharing_links")
		}
		if err := po.SetProperty(key, val); err != nil {
			w.pendingViolation = &Violation{Property: "C12", Signature: "C12/setproperty-error", Detail: fmt.Sprintf("SetProperty on %s returned %v", o.name, err)}
		}
		m.set(key, val)
	case "copyCell":
		var all []*mCell
		for _, h := range w.handles {
			if h.real != nil {
				all = append(all, h.cells...)
			}
		}
		if w.headerSet {
			all = append(all, w.header.cells...)
		}
		i := pick(len(all), st.A)
		if i < 0 {
			return true
		}
		src := all[len(all)-1-i]
		cells := w.liveCellsOf(src)
		if src.idx >= len(cells) {
			return true
		}
		var cp tabular.Cell
		switch pick(3, st.B) {
		case 0:
			cp = *(&cells[src.idx])
		case 1:
			cp = cells[src.idx]
		default:
			for j, c := range cells {
				if j == src.idx {
					cp = c
				}
			}
		}
		hold := &cp
		so := w.cellOwner(src)
		o := &propOwner{name: fmt.Sprintf("copy%d-of-%s", len(w.extraOwn), so.name), vals: clonePropMap(so.vals), order: append([]interface{}(nil), so.order...), shares: len(so.vals) > 0}
		o.access = func() tabular.PropertyOwner { return hold }
		o.chain = func() string {
			if w.rendered {
				return ""
			}
			return fmt.Sprintf("%#v", hold)
		}
		o.cell = hold
		o.regs = append([]*SimCallback(nil), src.regs...)
		w.extraOwn = append(w.extraOwn, o)
		w.probe("cell_copied")
		if len(o.regs) > 0 {
			w.probe("cell_copied_with_callbacks")
		}
		if o.shares {
			w.probe("cell_copied_with_properties")
		}
	case "addCopy":
		var copies []*propOwner
		for _, o := range w.extraOwn {
			if o.cell != nil {
				copies = append(copies, o)
			}
		}
		i := pick(len(copies), st.A)
		j := pick(len(w.handles), st.B)
		if i < 0 || j < 0 {
			return true
		}
		src := copies[len(copies)-1-i]
		h := w.handles[len(w.handles)-1-j]
		if h.real == nil {
			return true
		}
		// the stored cell holds the same item as the copy; give it a fresh identity in the model
		w.nextItem++
		mc := &mCell{itemID: w.nextItem, item: src.cell.Item(), regs: append([]*SimCallback(nil), src.regs...)}
		w.itemCell[mc.itemID] = mc
		w.expectRowAdd(h, mc)
		h.real.Add(*src.cell)
		h.cells = append(h.cells, mc)
		no := w.cellOwner(mc)
		no.vals = clonePropMap(src.vals)
		no.order = append([]interface{}(nil), src.order...)
		no.shares = len(src.vals) > 0
		src.shares = len(src.vals) > 0
		if h.attached {
			w.syncColumns()
		}
		w.probe("copy_added_to_row")
	case "nestCell", "updateCell":
		var all []*mCell
		for _, h := range w.handles {
			if h.real != nil {
				all = append(all, h.cells...)
			}
		}
		i := pick(len(all), st.A)
		if i < 0 {
			return true
		}
		src := all[len(all)-1-i]
		p := w.readPtr(src)
		if p == nil {
			return true
		}
		if st.Op == "updateCell" {
			if p = w.addrPtr(src); p == nil {
				return true
			}
			if b, ok := src.item.(interface{ base() *simBase }); ok && st.B == 1 {
				b.base().text += "~u"
				w.probe("cell_updated_after_its_item_changed")
			}
			p.Update() // re-reads the item; must not touch properties
			w.probe("cell_updated")
			return true
		}
		// a cell used as the ITEM of a new cell: the new cell is a new owner with no properties
		j := pick(len(w.handles), st.B)
		h := w.handles[len(w.handles)-1-j]
		if h.real == nil {
			return true
		}
		w.nextItem++
		mc := &mCell{itemID: w.nextItem}
		w.itemCell[mc.itemID] = mc
		w.expectRowAdd(h, mc)
		h.real.Add(tabular.NewCell(*p))
		if cells := h.real.Cells(); len(cells) > 0 {
			mc.item = cells[len(cells)-1].Item()
		}
		h.cells = append(h.cells, mc)
		if h.attached {
			w.syncColumns()
		}
		w.probe("cell_nested_in_cell")
		if len(w.cellOwner(src).vals) > 0 {
			w.probe("nested_cell_had_properties")
		}
	case "takeHandle":
		n := pick(w.Core.NColumns()+1, st.A)
		c := w.Tab.Column(n)
		if c == nil {
			return true
		}
		base := w.colOwners[n]
		o := &propOwner{name: fmt.Sprintf("handle%d-of-col%d", len(w.extraOwn), n), alias: base}
		var held tabular.PropertyOwner = c
		o.access = func() tabular.PropertyOwner { return held }
		o.stale = func() bool {
			cur := w.Tab.Column(n)
			return cur == nil || tabular.PropertyOwner(cur) != held
		}
		w.extraOwn = append(w.extraOwn, o)
		w.probe("column_handle_taken")
	}
	return true
}

func (p *propOwner) set(key, val interface{}) {
	// order: most recently set key last (mirrors nothing in the implementation;
	// only used to know whether a key sits at the head of the chain, for probes)
	for i, k := range p.order {
		if k == key {
			p.order = append(p.order[:i:i], p.order[i+1:]...)
			break
		}
	}
	if val == nil {
		delete(p.vals, key)
		return
	}
	p.vals[key] = val
	p.order = append(p.order, key)
}

func countLinks(s string) int {
	return strings.Count(s, "Value(") - strings.Count(s, "NoValue()")
}

// CheckC12 reads every key on every owner and compares with the model maps.
func (w *World) CheckC12(op string) *Violation {
	v := func(sig, format string, args ...interface{}) *Violation {
		return &Violation{Property: "C12", Signature: "C12/" + sig + "@" + op, Detail: fmt.Sprintf(format, args...)}
	}
	if pv := w.pendingViolation; pv != nil {
		w.pendingViolation = nil
		return pv
	}
	w.initPropModel()
	for n := range w.colOwners {
		w.wireColumn(n)
	}
	for _, o := range w.ownersAll() {
		po := o.access()
		if po == nil {
			continue
		}
		m := o.model()
		kind := "owner"
		switch {
		case o.alias != nil:
			kind = "column-handle"
		case o.cell != nil:
			kind = "cell-copy"
		}
		for ki, key := range w.keyPool {
			got := po.GetProperty(key)
			want := m.vals[key]
			if got != want {
				sig := "get-mismatch:" + kind
				if want == nil {
					sig = "get-phantom:" + kind
				} else if got == nil {
					sig = "get-lost:" + kind
				}
				return v(sig, "%s.GetProperty(key#%d %#v) = %#v, model says %#v", o.name, ki, key, got, want)
			}
		}
		if o.chain != nil && o.alias == nil {
			if s := o.chain(); s != "" {
				// only the part that prints the properties: what precedes it holds
				// counters (row number, callback count) whose digits may change
				if i := strings.Index(s, ".Props{"); i >= 0 {
					s = s[i:]
				} else {
					s = "-"
				}
				if d := o.sizeCheck(w, m, len(s)); d != "" {
					return v("stored-state-size:"+kind, "%s: %s: %s", o.name, d, trunc(s, 300))
				}
			}
		}
	}
	// table + columns: one %#v prefix prints all their chains
	s := fmt.Sprintf("%#v", w.Core)
	cut := strings.Index(s, "}.NoHeaders.Body[")
	if i := strings.Index(s, "}.HeaderRow{"); i >= 0 && (cut < 0 || i < cut) {
		cut = i
	}
	if cut >= 0 {
		// one pseudo-owner for "table + all columns": its key set is the union,
		// tagged by owner, and the column count (each column prints a fixed stub)
		sig := fmt.Sprintf("ncols=%d|", w.Core.NColumns())
		sig += keySig(w, w.tableOwner, "t")
		for n := 0; n < len(w.colOwners) && n <= w.Core.NColumns(); n++ {
			sig += keySig(w, w.colOwners[n], fmt.Sprintf("c%d", n))
			if c := w.Core.Column(n); c != nil && c.GetProperty(colIdentKey{}) != nil {
				sig += fmt.Sprintf("c%d:tag,", n)
			}
		}
		// the prefix also prints counts (errors, rows, callbacks) whose digits may
		// change: keep only the table's Props{...} part and the column list
		body := s[:cut]
		if i := strings.Index(body, ".Columns{"); i >= 0 {
			hdr := body[:i]
			if j := strings.Index(hdr, ".Props{"); j >= 0 {
				body = hdr[j:] + body[i:]
			} else {
				body = body[i:]
			}
			if w.tcSizes == nil {
				w.tcSizes = map[string]int{}
			}
			if old, ok := w.tcSizes[sig]; ok && old != len(body) {
				return v("stored-state-size:table+columns", "table and columns hold the same keys as at an earlier step but their printed stored state went from %d to %d bytes: %s", old, len(body), trunc(body, 400))
			} else if !ok {
				w.tcSizes[sig] = len(body)
			}
		}
	}
	return nil
}

// keySig lists the keys an owner holds (by pool index) and the printed width
// class of each value, for size bookkeeping.
func keySig(w *World, o *propOwner, tag string) string {
	s := ""
	for ki, key := range w.keyPool {
		if v, ok := o.vals[key]; ok {
			class := 0
			for zi, z := range zeroishValues {
				if v == z {
					class = zi + 1
				}
			}
			s += fmt.Sprintf("%s:%d/%d,", tag, ki, class)
		}
	}
	return s
}

// zeroishValues are legitimate property values that a sloppy "is it nil?"
// test would mistake for "remove".
var zeroishValues = []interface{}{(*keyT)(nil), "", 0, false, keyA{}, (*tabular.Cell)(nil), ptrValA, ptrValB}

// two distinct objects with equal contents: setting one after the other must
// store the second one (identity), whatever "deep equality" says
var ptrValA, ptrValB = &keyT{7}, &keyT{7}

// sizeCheck enforces "stored state is a function of the keys held": whenever
// an owner holds exactly the keys it held at some earlier step, the printed
// form of its stored state (fmt %#v) must have the same length — all values
// are four-digit integers.  This does not depend on how the chain is printed,
// only on its being printed; re-setting a key that leaves a stale link behind
// makes the text longer for the same key set.
func (o *propOwner) sizeCheck(w *World, m *propOwner, n int) string {
	if o.sizes == nil {
		o.sizes = map[string]int{}
	}
	sig := keySig(w, m, "k")
	if old, ok := o.sizes[sig]; ok {
		if old != n {
			return fmt.Sprintf("holds the same %d keys as at an earlier step but its printed stored state went from %d to %d bytes", len(m.vals), old, n)
		}
		return ""
	}
	o.sizes[sig] = n
	return ""
}

func trunc(s string, n int) string {
	if len(s) > n {
		return s[:n] + "..."
	}
	return s
}
