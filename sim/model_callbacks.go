package sim

import (
	"fmt"
	"strconv"

	"go.pennock.tech/tabular"
)

const (
	ownTable     = 0
	ownColumn    = 1
	ownRow       = 2
	ownCell      = 3
	ownAlien     = 4 // an owner the core package does not know (a wrapper object)
	ownCellValue = 5 // a caller-held Cell value (registration time only; behaves as ownCell afterwards)
)

var ownNames = []string{"table", "column", "row", "cell", "alien", "cell"}
var timeNames = []string{"add", "pre", "render", "post"}
var targetNames = []string{"itself", "cell", "row"}

// SimCallback is the PropertyCallback seam: it records each invocation,
// optionally marks its target, and fails when the script says so.
type SimCallback struct {
	id        int
	w         *World
	owner     int    // ownTable..
	col       int    // column number for ownColumn
	row       *mRow  // for ownRow
	cell      *mCell // for ownCell
	time      int    // 0 add, 1 pre, 2 render, 3 post
	target    int    // 0 itself, 1 cell, 2 row
	fail      map[int]bool
	marker    bool
	invoked   int
	sharedErr bool         // failing invocations all return one and the same error value
	src       *SimCallback // this registration is the same callback value as src (one error source, one invocation counter)
	panicAt   int          // invocation number (1-based) at which the callback panics; 0 = never
}

// SimPanic is what a SimCallback panics with when the script says so: user
// code blowing up in the middle of a library operation.  The caller (the
// simulator) recovers it and carries on using the table.
type SimPanic struct{ Reg int }

// simCallbackValue wraps a SimCallback in an uncomparable value type.
type simCallbackValue struct {
	cb  *SimCallback
	pad []int
}

func (v simCallbackValue) UpdateProperties(po tabular.PropertyOwner) error {
	return v.cb.UpdateProperties(po)
}

type markerKey struct{ reg int }
type colIdentKey struct{}

type cbEvent struct {
	reg    int
	target string // "T", "K<n>", "R<h>", "S<k>", "H", "C<item>", "?"
	live   bool
	mark   int // marker value set (0 = none)
}

func (e cbEvent) String() string {
	l := ""
	if !e.live {
		l = "(not live)"
	}
	return "cb#" + strconv.Itoa(e.reg) + "→" + e.target + l
}

func (cb *SimCallback) UpdateProperties(po tabular.PropertyOwner) error {
	w := cb.w
	root := cb
	if cb.src != nil {
		root = cb.src
	}
	inv := root.invoked
	root.invoked++
	ev := cbEvent{reg: cb.id}
	ev.target, ev.live = w.identify(po)
	if cb.marker {
		ev.mark = inv + 1
		po.SetProperty(markerKey{cb.id}, ev.mark)
	}
	w.cbEvents = append(w.cbEvents, ev)
	if w.Log != nil {
		w.Log.Add("cb " + ev.String())
	}
	yield(w.Y, "callback")
	if cb.time != 0 && cb.panicAt > 0 && inv+1 >= cb.panicAt {
		// only at render time: a panic in the middle of a building call would leave
		// the table half-updated, and what the table is then is nobody's claim
		w.Faults["cb_panic"]++
		cb.panicAt = 0
		w.simPanicked = true
		panic(SimPanic{cb.id})
	}
	if root.fail[inv] {
		var e error
		if root.sharedErr {
			// the same error value every time (and the same one for every
			// registration of the run that is scripted this way)
			if w.sharedSentinel == nil {
				w.sharedSentinel = w.newErr("shared")
			}
			e = w.sharedSentinel
			w.probe("same_error_value_raised_again")
		} else {
			e = w.newErr("cb#" + strconv.Itoa(root.id))
		}
		w.expect(e, w.errSink)
		w.Faults["cb_error_"+timeNames[cb.time]]++
		if w.errSink != nil && !w.errSink.attached {
			w.probe("cb_error_on_detached_row")
		}
		return e
	}
	return nil
}

// identify names the object a callback was handed and says whether it is the
// live object (the one reachable through the table right now).
func (w *World) identify(po tabular.PropertyOwner) (string, bool) {
	w.bindPending()
	switch x := po.(type) {
	case *tabular.ATable:
		return "T", x == w.Core
	case *tabular.Row:
		for _, h := range w.handles {
			if h.real == x {
				return "R" + strconv.Itoa(h.handle), true
			}
		}
		for _, s := range w.seps {
			if s.real == x {
				return "S" + strconv.Itoa(s.handle), true
			}
		}
		// otherwise: a header row (not reachable by pointer through the API)
		if w.headerSet || w.inHeaders {
			return "H", true
		}
		return "?row", false
	case *tabular.Cell:
		// several cells may hold the same item (a caller-owned copy added to
		// rows): the live one is the one whose lookup yields this very object
		first, firstUnaddr, attachingHit := "", "", false
		for id := 1; id <= w.nextItem; id++ {
			mc := w.itemCell[id]
			if mc == nil || !sameItem(mc.item, x.Item()) {
				continue
			}
			if col := x.Location().Column; col != 0 && col != mc.idx+1 {
				continue // same item, but at another position of its row
			}
			if w.inPass && mc.row != nil && !mc.row.attached && !mc.row.header {
				continue // same item, but in a row that is not in the table: a render pass does not go there
			}
			if p := w.addrPtr(mc); p != nil {
				if p == x {
					return "C" + strconv.Itoa(id), true
				}
			} else {
				// a header cell or a cell of a row not yet in a table: the API offers
				// no lookup that promises the cell itself, so liveness is decided by
				// what the callback sets being visible afterwards, not by address.
				// The address is still used to tell apart cells holding the same item.
				if w.readPtr(mc) == x {
					return "C" + strconv.Itoa(id), true
				}
				// no address to go by (the accessor handed out a copy): prefer a cell of
				// the row being attached right now, else the most recently added one
				if firstUnaddr == "" || !attachingHit {
					firstUnaddr = "C" + strconv.Itoa(id)
					attachingHit = w.attaching != nil && mc.row == w.attaching
				}
			}
			if first == "" {
				first = "C" + strconv.Itoa(id)
			}
		}
		if firstUnaddr != "" {
			return firstUnaddr, true
		}
		if first == "" {
			return "?cell", false
		}
		return first, false
	}
	// a column (unexported type): compare with the table's handles
	for n := 0; n <= w.Core.NColumns(); n++ {
		if c := w.Core.Column(n); c != nil && tabular.PropertyOwner(c) == po {
			return "K" + strconv.Itoa(n), true
		}
	}
	if id := po.GetProperty(colIdentKey{}); id != nil {
		return "K" + fmt.Sprint(id), false
	}
	return "?", false
}

func (w *World) itemIDOf(item interface{}) (id int, ok bool) {
	defer func() {
		if recover() != nil {
			ok = false
		}
	}()
	id, ok = w.itemByVal[item]
	return
}

// addrPtr returns the cell itself for a cell of a row that is in the table:
// CellAt is the one lookup the API promises to be the cell.  Header cells and
// cells of rows not (yet) in a table have no such lookup: nil.
func (w *World) addrPtr(mc *mCell) *tabular.Cell {
	if mc.row == nil {
		return nil
	}
	if mc.row.attached && !mc.row.header && !mc.row.sep && mc.row.pos > 0 {
		if p, err := w.Tab.CellAt(tabular.CellLocation{Row: mc.row.pos, Column: mc.idx + 1}); err == nil {
			return p
		}
	}
	return nil
}

// readPtr returns something through which the cell's current state can be
// READ: the cell itself if addressable, else the element of the slice that
// Row.Cells()/Headers() hands out — which may be the stored cell or a copy of
// it; either way it shows what the stored cell holds now.  Never written to.
func (w *World) readPtr(mc *mCell) *tabular.Cell {
	if p := w.addrPtr(mc); p != nil {
		return p
	}
	cells := w.liveCellsOf(mc)
	if mc.idx < len(cells) {
		return &cells[mc.idx]
	}
	return nil
}

// liveCellsOf returns the current cell slice of the row that holds mc.
func (w *World) liveCellsOf(mc *mCell) []tabular.Cell {
	if mc.row == nil {
		return nil
	}
	if mc.row.header {
		if w.inHeaders {
			return w.pendingHeaderCells()
		}
		return w.Tab.Headers()
	}
	if mc.row.real == nil {
		return nil
	}
	return mc.row.real.Cells()
}

func (w *World) pendingHeaderCells() []tabular.Cell { return w.Tab.Headers() }

// tagColumns sets the identity property on every column that exists.
func (w *World) tagColumns() {
	w.tagged = true
	for n := 0; n <= w.Core.NColumns(); n++ {
		if c := w.Core.Column(n); c != nil && c.GetProperty(colIdentKey{}) == nil {
			c.SetProperty(colIdentKey{}, n)
		}
	}
}

// supported says whether the core accepts owner×target.
func supported(owner, target int) bool {
	switch owner {
	case ownTable, ownRow:
		return true
	case ownColumn, ownCell:
		return target != 2
	}
	return false
}

// DoCB executes the callback-family steps.
//
//	register   A owner kind, B owner ref (column n / row ref 0=newest / cell ref),
//	           C time, D target, E bit0 marker, Plan invocation numbers that fail
//	invokeRC   InvokeRenderCallbacks() directly (one render pass)
func (w *World) DoCB(st *Step) (bool, *Violation) {
	switch st.Op {
	case "register":
		cb := &SimCallback{id: len(w.regs) + 1, w: w, owner: pick(6, st.A), time: pick(4, st.C), target: pick(3, st.D), marker: st.E&1 != 0, sharedErr: st.E&2 != 0, fail: map[int]bool{}}
		for _, n := range st.Plan {
			cb.fail[n] = true
		}
		if st.E&8 != 0 {
			cb.panicAt = 1 + pick(6, st.B+st.C+st.D)
		}
		if st.E&4 != 0 && len(w.regs) > 0 {
			cb.src = w.regs[len(w.regs)-1]
			if cb.src.src != nil {
				cb.src = cb.src.src
			}
			w.probe("same_callback_registered_at_two_levels")
		}
		var owner tabular.PropertyOwner
		var regTarget *[]*SimCallback
		switch cb.owner {
		case ownTable:
			owner = w.Core
		case ownColumn:
			cb.col = pick(w.Core.NColumns()+1, st.B)
			c := w.Core.Column(cb.col)
			if c == nil {
				return true, nil
			}
			owner = c
		case ownRow:
			i := pick(len(w.handles), st.B)
			if i < 0 {
				return true, nil
			}
			cb.row = w.handles[len(w.handles)-1-i]
			if st.E&64 != 0 && len(w.seps) > 0 {
				// a separator is a row of the table too (AllRows lists it): callbacks
				// registered on it for itself fire in its turn
				cb.row = w.seps[pick(len(w.seps), st.B)]
				w.probe("callback_registered_on_a_separator_row")
			}
			if cb.row.real == nil {
				return true, nil
			}
			owner = cb.row.real
		case ownCell:
			var all []*mCell
			for _, h := range w.handles {
				if h.real != nil {
					all = append(all, h.cells...)
				}
			}
			i := pick(len(all), st.B)
			if i < 0 {
				return true, nil
			}
			cb.cell = all[len(all)-1-i]
			p := w.addrPtr(cb.cell)
			if p == nil {
				return true, nil // not addressable: nothing the API promises to be the live cell
			}
			owner = p
			regTarget = &cb.cell.regs
		case ownCellValue:
			// a Cell value the caller still holds (a by-value copy), registered
			// upon before it is added to rows
			var copies []*propOwner
			for _, o := range w.extraOwn {
				if o.cell != nil {
					copies = append(copies, o)
				}
			}
			i := pick(len(copies), st.B)
			if i < 0 {
				return true, nil
			}
			co := copies[len(copies)-1-i]
			owner = co.cell
			regTarget = &co.regs
			cb.owner = ownCell
			w.probe("registered_on_caller_owned_cell_value")
		default:
			owner = w.Tab
			if _, isCore := w.Tab.(*tabular.ATable); isCore {
				owner = alienOwner{}
			}
		}
		var asRegistered tabular.PropertyCallback = cb
		if st.E&16 != 0 {
			// a callback VALUE of a type that cannot be compared with == (it has a
			// slice field), as a func-typed adapter would be
			asRegistered = simCallbackValue{cb: cb, pad: []int{cb.id}}
			w.probe("uncomparable_callback_value")
		}
		regTime, regTgt := cbTimes[cb.time], cbTargets[cb.target]
		outOfRange := false
		if st.E&32 != 0 {
			// a target (or, for odd ids, a time) that is none of the defined
			// constants: not a supported combination for any owner
			outOfRange = true
			if cb.id%2 == 1 {
				regTime = tabular.CB_AT_RENDER_POSTCELL + 1 + cbTimes[cb.time]
			} else {
				regTgt = tabular.CB_ON_ROW + 1 + cbTargets[cb.target]
			}
			w.probe("registration_with_a_value_outside_the_defined_constants")
		}
		err := w.Tab.RegisterPropertyCallback(owner, regTime, regTgt, asRegistered)
		want := supported(cb.owner, cb.target) && !outOfRange
		if w.Log != nil {
			w.Log.Add(fmt.Sprintf("register cb#%d %s/%s/%s err=%v", cb.id, ownNames[cb.owner], timeNames[cb.time], targetNames[cb.target], err != nil))
		}
		if (err == nil) != want {
			return true, &Violation{Property: "C13", Signature: "C13/registration-" + map[bool]string{true: "refused", false: "accepted"}[want] + ":" + ownNames[cb.owner] + "/" + targetNames[cb.target],
				Detail: fmt.Sprintf("RegisterPropertyCallback(%s, %s, %s) returned %v", ownNames[cb.owner], timeNames[cb.time], targetNames[cb.target], err)}
		}
		if err == nil {
			if regTarget != nil {
				*regTarget = append(*regTarget, cb)
			}
			w.regs = append(w.regs, cb)
			w.probe("reg_" + ownNames[cb.owner] + "_" + timeNames[cb.time] + "_" + targetNames[cb.target])
		} else {
			w.probe("registration_refused")
		}
		return true, nil
	case "invokeRC":
		w.beginPass()
		func() {
			defer func() {
				if r := recover(); r != nil {
					if _, ok := r.(SimPanic); !ok {
						panic(r)
					}
					w.probe("callback_panic_recovered_by_the_caller")
				}
			}()
			w.Tab.InvokeRenderCallbacks()
		}()
		return true, nil
	}
	return false, nil
}

type alienOwner struct{}

func (alienOwner) SetProperty(interface{}, interface{}) error { return nil }
func (alienOwner) GetProperty(interface{}) interface{}        { return nil }

// ---------------------------------------------------------------------------
// expectations

// An expectation: registration reg must be invoked on target.
type cbExpect struct {
	reg    int
	target string
}

func (w *World) regsAt(owner, time, target int, match func(cb *SimCallback) bool) []*SimCallback {
	var out []*SimCallback
	for _, cb := range w.regs {
		if cb.owner != owner || cb.time != time {
			continue
		}
		t := cb.target
		// Row: itself and row-target are the same list; Cell: itself and cell-target
		if owner == ownRow && t == 2 {
			t = 0
		}
		if owner == ownCell && t == 1 {
			t = 0
		}
		if t != target {
			continue
		}
		if match != nil && !match(cb) {
			continue
		}
		out = append(out, cb)
	}
	return out
}

func hasReg(list []*SimCallback, cb *SimCallback) bool {
	for _, x := range list {
		if x == cb {
			return true
		}
	}
	return false
}

func cellName(mc *mCell) string { return "C" + strconv.Itoa(mc.itemID) }

func rowName(mr *mRow) string {
	if mr.header {
		return "H"
	}
	if mr.sep {
		return "S" + strconv.Itoa(mr.handle)
	}
	return "R" + strconv.Itoa(mr.handle)
}

// expectRowAdd: a cell is about to be added to row h; h's own add-time cell
// callbacks must fire once for it.
func (w *World) expectRowAdd(h *mRow, c *mCell) {
	c.row, c.idx = h, len(h.cells)
	w.errSink = h
	for _, cb := range w.regsAt(ownRow, 0, 1, func(cb *SimCallback) bool { return cb.row == h }) {
		w.expAdd = append(w.expAdd, cbExpect{cb.id, cellName(c)})
	}
	if h.attached {
		// the statement describes table- and column-level cell callbacks for the
		// cells a row has WHEN IT IS ADDED; for a cell added later they may fire
		// (once) or not
		for _, cb := range w.regsAt(ownTable, 0, 1, nil) {
			w.optAdd = append(w.optAdd, cbExpect{cb.id, cellName(c)})
		}
		col := len(h.cells) + 1
		for _, cb := range w.regsAt(ownColumn, 0, 1, func(cb *SimCallback) bool { return cb.col == col }) {
			w.optAdd = append(w.optAdd, cbExpect{cb.id, cellName(c)})
		}
	}
}

// expectAddTime: row mr (or the header row) has just been added to the table.
func (w *World) expectAddTime(mr *mRow, header bool) {
	for i, c := range mr.cells {
		c.row, c.idx = mr, i
	}
	for _, cb := range w.regsAt(ownTable, 0, 2, nil) {
		w.expAdd = append(w.expAdd, cbExpect{cb.id, rowName(mr)})
	}
	for i, c := range mr.cells {
		if !header {
			for _, cb := range w.regsAt(ownColumn, 0, 1, func(cb *SimCallback) bool { return cb.col == i+1 }) {
				w.expAdd = append(w.expAdd, cbExpect{cb.id, cellName(c)})
			}
		}
		for _, cb := range w.regsAt(ownTable, 0, 1, nil) {
			w.expAdd = append(w.expAdd, cbExpect{cb.id, cellName(c)})
		}
	}
}

// listed says whether the statement lists this registration kind as firing on
// a target of the given name at the given phase ("add" or "render").
func (w *World) listed(cb *SimCallback, target string, phase string) bool {
	tk := target[0]
	if phase == "add" {
		if cb.time != 0 {
			return false
		}
		switch cb.owner {
		case ownTable:
			return (cb.target == 2 && (tk == 'R' || tk == 'H')) || (cb.target == 1 && tk == 'C')
		case ownColumn:
			return cb.target == 1 && tk == 'C' && cb.col >= 1 && !w.isHeaderCell(target)
		case ownRow:
			return cb.target == 1 && tk == 'C'
		}
		return false
	}
	switch cb.owner {
	case ownTable:
		if cb.target == 0 {
			return (cb.time == 1 || cb.time == 3) && tk == 'T'
		}
		return cb.target == 1 && cb.time >= 1 && tk == 'C'
	case ownColumn:
		if cb.col < 1 {
			// the defaults column is a column: a callback registered on it for
			// itself fires like any other column's.  (Whether its CELL callbacks
			// fire for body cells is not stated.)
			return cb.target == 0 && (cb.time == 1 || cb.time == 3) && tk == 'K'
		}
		if cb.target == 0 {
			return (cb.time == 1 || cb.time == 3) && tk == 'K'
		}
		return cb.target == 1 && (cb.time == 1 || cb.time == 3) && tk == 'C' && !w.isHeaderCell(target)
	case ownRow:
		if cb.target == 1 {
			return (cb.time == 1 || cb.time == 3) && tk == 'C'
		}
		return (cb.time == 1 || cb.time == 3) && (tk == 'R' || tk == 'S' || tk == 'H')
	case ownCell:
		return cb.time == 2 && tk == 'C'
	}
	return false
}

func (w *World) isHeaderCell(target string) bool {
	id, err := strconv.Atoi(target[1:])
	if err != nil {
		return false
	}
	mc := w.itemCell[id]
	return mc != nil && mc.row != nil && mc.row.header
}

// expectedRenderPass is the reference traversal of one render pass.
//
// The statement orders the LISTS ("table, columns, then per row the row itself
// and per cell the pre-cell callbacks of table, column and row, ...").  It does
// not order the columns among themselves, nor the callbacks registered in one
// and the same list: the events of one such slot are compared as a multiset
// (w.passSlot gives the slot of every expected event).
func (w *World) expectedRenderPass() []cbExpect {
	var out []cbExpect
	w.passSlot = w.passSlot[:0]
	slot := 0
	addTo := func(cbs []*SimCallback, target string) {
		for _, cb := range cbs {
			out = append(out, cbExpect{cb.id, target})
			w.passSlot = append(w.passSlot, slot)
		}
	}
	add := func(cbs []*SimCallback, target string) {
		slot++
		addTo(cbs, target)
	}
	nc := w.Core.NColumns()
	add(w.regsAt(ownTable, 1, 0, nil), "T")
	slot++
	for n := 0; n <= nc; n++ {
		nn := n
		addTo(w.regsAt(ownColumn, 1, 0, func(cb *SimCallback) bool { return cb.col == nn }), "K"+strconv.Itoa(n))
	}
	rows := []*mRow{}
	if w.headerSet {
		rows = append(rows, w.header)
	}
	rows = append(rows, w.rows...)
	for _, mr := range rows {
		rr := mr
		isRow := func(cb *SimCallback) bool { return cb.row == rr }
		add(w.regsAt(ownRow, 1, 0, isRow), rowName(mr))
		for i, c := range mr.cells {
			ii, cc := i, c
			isCol := func(cb *SimCallback) bool { return cb.col == ii+1 }
			name := cellName(c)
			add(w.regsAt(ownTable, 1, 1, nil), name)
			if !mr.header {
				add(w.regsAt(ownColumn, 1, 1, isCol), name)
			}
			add(w.regsAt(ownRow, 1, 1, isRow), name)
			add(w.regsAt(ownTable, 2, 1, nil), name)
			add(w.regsAt(ownCell, 2, 0, func(cb *SimCallback) bool { return hasReg(cc.regs, cb) }), name)
			add(w.regsAt(ownRow, 3, 1, isRow), name)
			if !mr.header {
				add(w.regsAt(ownColumn, 3, 1, isCol), name)
			}
			add(w.regsAt(ownTable, 3, 1, nil), name)
		}
		add(w.regsAt(ownRow, 3, 0, isRow), rowName(mr))
	}
	slot++
	for n := 0; n <= nc; n++ {
		nn := n
		addTo(w.regsAt(ownColumn, 3, 0, func(cb *SimCallback) bool { return cb.col == nn }), "K"+strconv.Itoa(n))
	}
	add(w.regsAt(ownTable, 3, 0, nil), "T")
	return out
}

// beginPass must be called right before anything that performs exactly one
// render pass (InvokeRenderCallbacks or any renderer).
func (w *World) beginPass() {
	w.tagColumns()
	w.errSink = nil
	w.passExpected = w.expectedRenderPass()
	w.inPass = true
	w.cbEvents = w.cbEvents[:0]
}

// beginStep resets the per-step event record (for non-render steps).
func (w *World) beginStep() {
	w.cbEvents = w.cbEvents[:0]
	w.expAdd = w.expAdd[:0]
	w.optAdd = w.optAdd[:0]
	w.inPass = false
	w.dumped = false
	w.errSink = nil
}

func (w *World) regByID(id int) *SimCallback {
	if id >= 1 && id <= len(w.regs) {
		return w.regs[id-1]
	}
	return nil
}

// CheckC13 compares the events recorded during the step just executed with
// what the statement says must have happened.
func (w *World) CheckC13(op string) *Violation {
	v := func(sig, format string, args ...interface{}) *Violation {
		return &Violation{Property: "C13", Signature: "C13/" + sig + "@" + op, Detail: fmt.Sprintf(format, args...)}
	}
	if w.simPanicked {
		// the pass was cut short by a callback that panicked (scripted): nothing
		// to compare for this step; the passes after it are checked as usual
		w.simPanicked = false
		return nil
	}
	phase := "add"
	if w.inPass {
		phase = "render"
	}
	if w.foreignFired > 0 {
		w.foreignFired = 0
		return v("other-tables-callback-fired", "a callback registered on ANOTHER table fired for a cell that was copied by value out of that table into this one")
	}
	if w.dumped {
		// printing the table is not a render pass and adds nothing: no callback of
		// any kind has a reason to fire
		w.dumped = false
		for _, ev := range w.cbEvents {
			if cb := w.regByID(ev.reg); cb != nil {
				return v("fired-by-printing:"+ownNames[cb.owner]+"/"+timeNames[cb.time]+"/"+targetNames[cb.target], "%v fired while the table was being printed with %%#v", ev)
			}
		}
	}
	// every event: target must be the live object
	var listedEv []cbEvent
	count := map[cbExpect]int{}
	for _, ev := range w.cbEvents {
		cb := w.regByID(ev.reg)
		if cb == nil {
			continue
		}
		count[cbExpect{ev.reg, ev.target}]++
		if w.listed(cb, ev.target, phase) {
			listedEv = append(listedEv, ev)
			if !ev.live {
				return v("target-not-live:"+ownNames[cb.owner]+"/"+timeNames[cb.time]+"/"+targetNames[cb.target], "%v was handed an object that is not the live one", ev)
			}
		}
	}
	for k, n := range count {
		if n > 1 {
			cb := w.regByID(k.reg)
			return v("fired-twice:"+ownNames[cb.owner]+"/"+timeNames[cb.time]+"/"+targetNames[cb.target], "cb#%d fired %d times on %s in one %s", k.reg, n, k.target, phase)
		}
	}
	if phase == "render" {
		exp := w.passExpected
		slotOf := func(i int) int {
			if i < len(w.passSlot) {
				return w.passSlot[i]
			}
			return -1 - i // (no slot information: every event is a slot of its own)
		}
		for a := 0; a < len(exp) || a < len(listedEv); {
			if a >= len(exp) {
				cb := w.regByID(listedEv[a].reg)
				return v("extra:"+ownNames[cb.owner]+"/"+timeNames[cb.time]+"/"+targetNames[cb.target], "unexpected event %v after the %d expected ones", listedEv[a], len(exp))
			}
			b := a
			for b < len(exp) && slotOf(b) == slotOf(a) {
				b++
			}
			// the events a..b-1 of the pass are those of one slot, in any order
			remaining := map[cbExpect]int{}
			for _, e := range exp[a:b] {
				remaining[e]++
			}
			firstRemaining := func() cbExpect {
				for _, e := range exp[a:b] {
					if remaining[e] > 0 {
						return e
					}
				}
				return exp[a]
			}
			for i := a; i < b; i++ {
				if i >= len(listedEv) {
					e := firstRemaining()
					cb := w.regByID(e.reg)
					return v("missing:"+ownNames[cb.owner]+"/"+timeNames[cb.time]+"/"+targetNames[cb.target], "render pass ended after %d listed events; expected next cb#%d on %s", len(listedEv), e.reg, e.target)
				}
				got := cbExpect{listedEv[i].reg, listedEv[i].target}
				if remaining[got] == 0 {
					e := firstRemaining()
					cb := w.regByID(e.reg)
					return v("order:"+ownNames[cb.owner]+"/"+timeNames[cb.time]+"/"+targetNames[cb.target], "event %d of the pass is %v; the documented order has cb#%d on %s here (or another callback of the same list)", i, listedEv[i], e.reg, e.target)
				}
				remaining[got]--
			}
			a = b
		}
	} else {
		for _, e := range w.expAdd {
			if count[e] != 1 {
				cb := w.regByID(e.reg)
				return v("add-count:"+ownNames[cb.owner]+"/"+targetNames[cb.target], "add-time cb#%d fired %d times on %s, want exactly once", e.reg, count[e], e.target)
			}
		}
		// listed add-time events that were not expected
		for _, ev := range listedEv {
			found := false
			for _, e := range w.expAdd {
				if e.reg == ev.reg && e.target == ev.target {
					found = true
					break
				}
			}
			for _, e := range w.optAdd {
				if e.reg == ev.reg && e.target == ev.target {
					found = true
					break
				}
			}
			if !found {
				cb := w.regByID(ev.reg)
				return v("add-extra:"+ownNames[cb.owner]+"/"+targetNames[cb.target], "add-time %v fired although nothing matching was added", ev)
			}
		}
	}
	// markers: what the callback set must be visible through the table
	for _, ev := range w.cbEvents {
		cb := w.regByID(ev.reg)
		if cb == nil || ev.mark == 0 || !w.listed(cb, ev.target, phase) {
			continue
		}
		// only the last marker per (reg,target) is expected to remain
		last := ev.mark
		for _, e2 := range w.cbEvents {
			if e2.reg == ev.reg && e2.target == ev.target && e2.mark > last {
				last = e2.mark
			}
		}
		po := w.lookup(ev.target)
		if po == nil {
			continue
		}
		if got := po.GetProperty(markerKey{ev.reg}); got != last {
			return v("marker-not-visible:"+ownNames[cb.owner]+"/"+timeNames[cb.time]+"/"+targetNames[cb.target], "cb#%d set a property on %s; through the table it reads %v, want %v", ev.reg, ev.target, got, last)
		}
	}
	return nil
}

// lookup finds the live object with the given event name through the table.
func (w *World) lookup(name string) tabular.PropertyOwner {
	n, _ := strconv.Atoi(name[1:])
	switch name[0] {
	case 'T':
		return w.Tab
	case 'K':
		if c := w.Tab.Column(n); c != nil {
			return c
		}
	case 'R':
		if n < len(w.handles) && w.handles[n].real != nil {
			return w.handles[n].real
		}
	case 'C':
		mc := w.itemCell[n]
		if mc == nil || mc.row == nil {
			return nil
		}
		if p := w.readPtr(mc); p != nil {
			return p
		}
	}
	return nil
}

func sliceOf[T any](xs ...T) []T { return xs }

// the time and target types are unexported; their constants are not
var cbTimes = sliceOf(tabular.CB_AT_ADD, tabular.CB_AT_RENDER_PRECELL, tabular.CB_AT_RENDER, tabular.CB_AT_RENDER_POSTCELL)
var cbTargets = sliceOf(tabular.CB_ON_ITSELF, tabular.CB_ON_CELL, tabular.CB_ON_ROW)
