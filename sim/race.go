package sim

import (
	"bufio"
	"context"
	"fmt"
	"os"
	"os/exec"
	"path/filepath"
	"sort"
	"strconv"
	"strings"
	"sync"
	"sync/atomic"
	"time"

	"go.pennock.tech/tabular/auto"
	"go.pennock.tech/tabular/texttable"
	"go.pennock.tech/tabular/texttable/decoration"
)

// The race prong: the same task scripts as the serialised prong, executed as
// truly parallel goroutines with no scheduler and no shared simulator state,
// in a binary built with -race.  The Go race detector (vector-clock
// happens-before analysis) is the oracle.

// raceHangTimeout: a parallel execution takes milliseconds; one that has not
// finished after this long has goroutines that will never finish (a lock left
// held, an inverted lock order).
const raceHangTimeout = 25 * time.Second

// ExitRaceHang is the exit code of a race-prong process whose parallel
// execution did not finish.
const ExitRaceHang = 79

// RaceExec runs all tasks of a script in parallel, once.  It reports false
// when the tasks did not finish within raceHangTimeout.
func RaceExec(s *Script) (finished bool) {
	defer func() {
		if recover() != nil { // panics are the serialised prong's business
			finished = true
		}
	}()
	start := make(chan struct{})
	var wg sync.WaitGroup
	prefix := fmt.Sprintf("race%x-%d-", s.Seed&0xffffff, time.Now().UnixNano()&0xffffff)
	npool := s.Cfg("pool", 2)
	pool := make([]string, 0, npool)
	for i := 0; i < npool && i < len(poolShapes); i++ {
		pool = append(pool, prefix+poolShapes[i])
	}
	tmpl := NewTemplateCell()
	sharedErrs := NewTemplateErrs()
	for t := range s.Tasks {
		steps := cloneSteps(s.Tasks[t])
		wg.Add(1)
		go func() {
			defer wg.Done()
			defer func() { recover() }() // panics are the serialised prong's business
			<-start
			if s.Property == "C17" || s.Property == "C19" || isRegistryTask(steps) {
				raceRegTask(pool, steps)
				return
			}
			runTableTask(steps, nil, nil, &taskResult{}, sharedErrs, tmpl)
		}()
	}
	close(start)
	done := make(chan struct{})
	go func() { wg.Wait(); close(done) }()
	select {
	case <-done:
		return true
	case <-time.After(raceHangTimeout):
		return false
	}
}

// raceRegTask performs registry operations without recording anything.
func raceRegTask(pool []string, steps []Step) {
	all := append(append(append([]string{}, pool...), builtinDecos...), "never-registered")
	for i := range steps {
		st := &steps[i]
		switch st.Op {
		case "reg":
			if len(pool) > 0 {
				decoration.RegisterDecorationName(pool[pick(len(pool), st.A)], variantDeco(pick(20, st.B)))
			}
		case "named":
			decoration.Named(all[pick(len(all), st.A)])
		case "names":
			decoration.RegisteredDecorationNames()
		case "styles", "probe":
			auto.ListStyles()
		case "setdeco":
			tt := texttable.Wrap(smallTable())
			tt.SetDecorationNamed(all[pick(len(all), st.A)])
			tt.Render()
		}
	}
}

// RunRaceWorker is `tabsim-race raceworker`: prints "RUN <idx>" before each
// execution so that the parent knows which script was running when the race
// detector halted the process.
func RunRaceWorker(e Engine, tier string, batch uint64, lo, hi, stride int, deadline time.Time) {
	out := bufio.NewWriter(os.Stdout)
	for idx := lo; idx < hi; idx += stride {
		if !deadline.IsZero() && time.Now().After(deadline) {
			break
		}
		s := GenScript(e, batch, idx, tier)
		if len(s.Tasks) < 2 {
			continue
		}
		fmt.Fprintf(out, "RUN %d\n", idx)
		out.Flush()
		if !RaceExec(s) {
			fmt.Fprintf(out, "HANG %d\n", idx)
			out.Flush()
			os.Exit(ExitRaceHang)
		}
	}
	fmt.Fprintf(out, "DONE\n")
	out.Flush()
}

// raceSignature extracts a stable signature from a race-detector (or
// runtime fatal) report: the innermost in-repo function of each of the two
// conflicting stacks, sorted.
func raceSignature(report string) (string, bool) {
	if i := strings.Index(report, "WARNING: DATA RACE"); i >= 0 {
		body := report[i:]
		stacks := strings.Split(body, "\n\n")
		var fns []string
		for _, st := range stacks {
			if len(fns) == 2 {
				break
			}
			first := strings.TrimSpace(strings.SplitN(st, "\n", 2)[0])
			if !(strings.Contains(first, " at 0x") || strings.HasPrefix(first, "WARNING")) {
				continue
			}
			fn := "?"
			for _, line := range strings.Split(st, "\n") {
				l := strings.TrimSpace(line)
				if strings.HasPrefix(l, repoPrefix) {
					fn = l
					if j := strings.Index(fn, "("); j >= 0 && !strings.HasPrefix(fn[j:], "(*") {
						fn = fn[:j]
					}
					fn = strings.TrimSuffix(fn, "()")
					fn = fn[strings.LastIndex(fn, "/")+1:]
					break
				}
			}
			fns = append(fns, fn)
		}
		sort.Strings(fns)
		return "data-race:" + strings.Join(fns, "|"), true
	}
	for _, marker := range []string{"fatal error: concurrent map", "fatal error: all goroutines are asleep"} {
		if i := strings.Index(report, marker); i >= 0 {
			line := report[i:]
			if j := strings.IndexByte(line, '\n'); j >= 0 {
				line = line[:j]
			}
			return "runtime-fatal:" + strings.ReplaceAll(strings.TrimPrefix(line, "fatal error: "), " ", "-"), true
		}
	}
	return "", false
}

func raceEnv(procs int) []string {
	return append(os.Environ(), "GORACE=halt_on_error=1 exitcode=66", "GOMAXPROCS="+strconv.Itoa(procs))
}

// raceOne runs one script file in the race binary up to tries times.
func raceOne(raceExe, path string, tries, procs int) (sig string, report string) {
	// one fresh process per try: a race on lazily initialised package state
	// can only happen on the first execution in a process
	for i := 0; i < tries; i++ {
		cmd := exec.Command(raceExe, "raceone", path, "2")
		cmd.Env = raceEnv(procs)
		out, err := cmd.CombinedOutput()
		if err == nil {
			continue
		}
		if s, ok := raceSignature(string(out)); ok {
			return s, string(out)
		}
		report = string(out)
	}
	return "", report
}

// raceHangs runs one script file in the race binary up to tries times and
// reports whether a parallel execution failed to finish.
func raceHangs(raceExe, path string, tries, procs int) bool {
	for i := 0; i < tries; i++ {
		ctx, cancel := context.WithTimeout(context.Background(), 4*raceHangTimeout)
		cmd := exec.CommandContext(ctx, raceExe, "raceone", path, "2")
		cmd.Env = raceEnv(procs)
		err := cmd.Run()
		cancel()
		if ee, ok := err.(*exec.ExitError); ok && ee.ExitCode() == ExitRaceHang {
			return true
		}
	}
	return false
}

type raceFinding struct {
	sig    string
	report string
	script *Script
	count  int
	before []int // indices the same race worker had executed earlier in its process
}

// RunRaceProng is the coordinator side.  It returns findings (already
// minimised) and counters for the evidence file; trouble is set when a race
// worker failed for a reason that is not a race.
func RunRaceProng(o CheckOptions, e Engine, runs int, workDir string) (finds []*raceFinding, stats map[string]int, trouble bool) {
	stats = map[string]int{}
	if o.RaceExe == "" {
		fmt.Fprintln(os.Stderr, "tabsim: HARNESS TROUBLE race prong requested but TABSIM_RACE is not set")
		return nil, stats, true
	}
	// many short-lived processes: a race on lazily initialised package state can
	// only show on the first use in a process, so each process executes about a
	// dozen scripts and eight processes run at a time
	workers := runs / 12
	if workers < 8 {
		workers = 8
	}
	if workers > runs {
		workers = runs
	}
	sem := make(chan struct{}, 8)
	type wres struct {
		out, errOut string
		code        int
		procs       int
	}
	results := make([]wres, workers)
	var hangExits int32
	var wg sync.WaitGroup
	budget := 120
	if o.Tier == "thorough" {
		budget = 1500
	}
	for k := 0; k < workers; k++ {
		wg.Add(1)
		go func(k int) {
			defer wg.Done()
			sem <- struct{}{}
			defer func() { <-sem }()
			if atomic.LoadInt32(&hangExits) >= 2 {
				return // two processes already hung: the rest would only wait out the same hang
			}
			procs := 4
			if k%2 == 1 {
				procs = 16
			}
			cmd := exec.Command(o.RaceExe, "raceworker", "-prop", o.Property, "-tier", o.Tier, "-seed", strconv.FormatUint(o.Seed, 10),
				"-lo", strconv.Itoa(k), "-hi", strconv.Itoa(runs), "-stride", strconv.Itoa(workers), "-budget", strconv.Itoa(budget))
			cmd.Env = raceEnv(procs)
			var so, se strings.Builder
			cmd.Stdout = &so
			cmd.Stderr = &se
			err := cmd.Run()
			code := 0
			if ee, ok := err.(*exec.ExitError); ok {
				code = ee.ExitCode()
			} else if err != nil {
				code = -1
			}
			if code == ExitRaceHang {
				atomic.AddInt32(&hangExits, 1)
			}
			results[k] = wres{so.String(), se.String(), code, procs}
		}(k)
	}
	wg.Wait()
	bySig := map[string]*raceFinding{}
	for k, r := range results {
		n := strings.Count(r.out, "RUN ")
		stats["race_executions"] += n
		stats[fmt.Sprintf("race_executions_gomaxprocs_%d", r.procs)] += n
		if r.code == 0 {
			continue
		}
		sig, ok := raceSignature(r.errOut)
		if !ok && r.code == ExitRaceHang {
			sig, ok = "parallel-hang", true
			stats["race_prong_executions_that_did_not_finish"]++
		}
		if !ok {
			fmt.Fprintf(os.Stderr, "tabsim: HARNESS TROUBLE race worker %d exited %d without a race report:\n%s\n", k, r.code, tail(r.errOut, 3000))
			trouble = true
			continue
		}
		// which run was executing
		idx := -1
		lines := strings.Split(strings.TrimSpace(r.out), "\n")
		for i := len(lines) - 1; i >= 0; i-- {
			if strings.HasPrefix(lines[i], "RUN ") {
				idx, _ = strconv.Atoi(strings.TrimPrefix(lines[i], "RUN "))
				break
			}
		}
		if idx < 0 {
			trouble = true
			continue
		}
		stats["race_reports"]++
		full := o.Property + "/" + sig
		if f, ok := bySig[full]; ok {
			f.count++
			continue
		}
		s := GenScript(e, o.Seed, idx, o.Tier)
		s.Config["race"] = 1
		// the runs this race worker executed before the one that raced
		var before []int
		for j := k; j < idx; j += workers {
			before = append(before, j)
		}
		bySig[full] = &raceFinding{sig: full, report: r.errOut, script: s, count: 1, before: before}
	}
	// minimise each finding with subprocess executions
	for _, f := range bySig {
		tmp := filepath.Join(workDir, "racecand.json")
		if strings.HasSuffix(f.sig, "/parallel-hang") {
			// confirm in fresh processes: alone, else after the runs of that process
			hangs := func(c *Script, tries int) bool {
				c.Config["race"] = 1
				c.WriteFile(tmp)
				return raceHangs(o.RaceExe, tmp, tries, 8)
			}
			c := f.script.Clone()
			confirmed := hangs(c, 3)
			if !confirmed && len(f.before) > 0 {
				c.Prelude = &Prelude{Batch: o.Seed, Tier: o.Tier, Indices: f.before}
				if confirmed = hangs(c, 2); confirmed {
					stats["race_findings_needing_a_prelude"]++
					for tries := 0; len(c.Prelude.Indices) > 1 && tries < 4; tries++ {
						half := c.Clone()
						half.Prelude.Indices = half.Prelude.Indices[len(half.Prelude.Indices)/2:]
						if !hangs(half, 1) {
							break
						}
						c = half
					}
				}
			}
			if !confirmed {
				fmt.Fprintf(os.Stderr, "tabsim: HARNESS TROUBLE a parallel execution of run %d did not finish, but fresh processes do not reproduce that\n", f.script.Index)
				trouble = true
				continue
			}
			c.Schedule = nil
			c.Expect = &Expect{Signature: f.sig, Detail: fmt.Sprintf("the goroutines of this script, run in parallel without the scheduler, had not finished after %v (a lock left held, or a lock-order inversion)", raceHangTimeout)}
			f.script = c
			finds = append(finds, f)
			continue
		}
		fails := func(c *Script) bool {
			c.WriteFile(tmp)
			sig, _ := raceOne(o.RaceExe, tmp, 4, 8)
			return sig != "" && o.Property+"/"+sig == f.sig
		}
		best := f.script
		if !fails(best) && len(f.before) > 0 {
			// not reproducible alone: replay it as the history of runs of that process
			withPre := best.Clone()
			withPre.Config["race"] = 1
			withPre.Prelude = &Prelude{Batch: o.Seed, Tier: o.Tier, Indices: f.before}
			if fails(withPre) {
				for len(withPre.Prelude.Indices) > 1 {
					half := withPre.Clone()
					half.Config["race"] = 1
					half.Prelude.Indices = half.Prelude.Indices[len(half.Prelude.Indices)/2:]
					if !fails(half) {
						break
					}
					withPre = half
				}
				stats["race_findings_needing_a_prelude"]++
				withPre.Schedule = nil
				withPre.Expect = &Expect{Signature: f.sig, Detail: firstRaceLines(f.report) + " (after the prelude of earlier runs listed in the replay file)"}
				f.script = withPre
				finds = append(finds, f)
				continue
			}
		}
		execs := 0
		try := func(c *Script) bool {
			if execs > 60 {
				return false
			}
			execs++
			if fails(c) {
				best = c
				return true
			}
			return false
		}
		for t := len(best.Tasks) - 1; t >= 0 && len(best.Tasks) > 2; t-- {
			c := best.Clone()
			c.Tasks = append(c.Tasks[:t:t], c.Tasks[t+1:]...)
			c.Config["race"] = 1
			try(c)
		}
		for t := range best.Tasks {
			for n := len(best.Tasks[t]) / 2; n >= 1; n /= 2 {
				for start := 0; start+n <= len(best.Tasks[t]); {
					c := best.Clone()
					c.Config["race"] = 1
					c.Tasks[t] = append(c.Tasks[t][:start:start], c.Tasks[t][start+n:]...)
					if !try(c) {
						start += n
					}
				}
			}
		}
		best.Schedule = nil
		best.Expect = &Expect{Signature: f.sig, Detail: firstRaceLines(f.report)}
		f.script = best
		finds = append(finds, f)
	}
	sort.Slice(finds, func(i, j int) bool { return finds[i].sig < finds[j].sig })
	return finds, stats, trouble
}

func firstRaceLines(report string) string {
	i := strings.Index(report, "WARNING: DATA RACE")
	if i < 0 {
		i = strings.Index(report, "fatal error:")
	}
	if i < 0 {
		return trunc(report, 400)
	}
	var keep []string
	for _, l := range strings.Split(report[i:], "\n") {
		t := strings.TrimSpace(l)
		if strings.HasPrefix(t, repoPrefix) || strings.Contains(t, " by goroutine ") || strings.HasPrefix(t, "WARNING") || strings.HasPrefix(t, "fatal error") {
			keep = append(keep, t)
		}
		if len(keep) >= 8 {
			break
		}
	}
	return strings.Join(keep, " ; ")
}

// RunRaceOne is `tabsim-race raceone <file> <tries>`.
func RunRaceOne(path string, tries int) int {
	s, err := ReadScript(path)
	if err != nil {
		fmt.Fprintln(os.Stderr, err)
		return 2
	}
	if e := EngineFor(s.Property); e != nil {
		RunPrelude(e, s, func(p *Script) {
			if len(p.Tasks) >= 2 {
				if !RaceExec(p) {
					os.Exit(ExitRaceHang)
				}
			}
		})
	}
	for i := 0; i < tries; i++ {
		if !RaceExec(s) {
			return ExitRaceHang
		}
	}
	return 0
}

// replayRace is used by `tabsim replay` for files with config.race = 1.
func replayRace(path string, s *Script) int {
	raceExe := os.Getenv("TABSIM_RACE")
	if raceExe == "" {
		fmt.Fprintln(os.Stderr, "tabsim: replaying a race finding needs the -race build (use ./check replay <file>)")
		return 2
	}
	if s.Expect != nil && strings.HasSuffix(s.Expect.Signature, "/parallel-hang") {
		if raceHangs(raceExe, path, 5, 8) {
			fmt.Printf("replay: %s\nreplay: REPRODUCED (the parallel execution did not finish within %v)\n", s.Expect.Signature, raceHangTimeout)
			fmt.Printf("VIOLATION property=%s replay=%s\n", s.Property, path)
			return 1
		}
		fmt.Println("replay: every parallel execution finished")
		return 0
	}
	other := ""
	for i := 0; i < 20; i++ {
		sig, report := raceOne(raceExe, path, 1, 8)
		if sig == "" {
			continue
		}
		full := s.Property + "/" + sig
		if s.Expect == nil || s.Expect.Signature == full {
			fmt.Printf("replay: %s\n%s\n", full, firstRaceLines(report))
			fmt.Printf("replay: REPRODUCED (same racing pair) on parallel execution %d\n", i+1)
			fmt.Printf("VIOLATION property=%s replay=%s\n", s.Property, path)
			return 1
		}
		other = full + "\n" + firstRaceLines(report)
	}
	if other == "" {
		fmt.Println("replay: no race reported in 20 parallel executions")
		return 0
	}
	// the detector halts at the first race it sees; this script has more than one
	fmt.Printf("replay: %s\n", other)
	fmt.Printf("replay: REPRODUCED a data race in the same script; the recorded pair (%s) was masked by this one, which the detector reports first\n", s.Expect.Signature)
	fmt.Printf("VIOLATION property=%s replay=%s\n", s.Property, path)
	return 1
}
