package sim

import (
	"fmt"
	"os"
	"strconv"
	"time"
)

// Sched is the cooperative scheduler of concurrent runs.  Each task is a real
// goroutine running real library code; at every seam crossing it parks here
// and waits to be released.  Exactly one task runs at any instant and which
// one is decided by the script's schedule, so one script is one exactly
// repeatable interleaving.
//
// Schedule semantics: each time every live task is parked the scheduler takes
// the next entry e.  e == 0 keeps running the task that ran last (or the
// lowest-numbered live task if that one has finished); e > 0 switches to the
// e-th other live task (modulo their number).  When the schedule is exhausted
// every further choice is 0, i.e. the tasks run to completion one after the
// other.  Every subsequence of a schedule is therefore a valid schedule, and
// the all-zero schedule is the sequential execution.
type Sched struct {
	tasks    []*Task
	schedule []int
	pos      int
	current  int
	events   chan schedEvent
	log      *EventLog
	trace    *hasher
	Switches int
	Yields   int
	Sites    map[string]int
	Panics   []string
	Cross    []string // cross-task seam invocations observed
}

type schedEvent struct {
	task int
	done bool
	site string
	pi   *PanicInfo
}

type Task struct {
	id      int
	s       *Sched
	release chan struct{}
	done    bool
	site    string
}

// deadlockTimeout: a released task reaches its next seam within microseconds;
// twenty seconds of silence on an otherwise idle scheduler is a deadlock.
// (Candidates tried while a confirmed deadlock is being minimised use a
// shorter limit, set through the environment; the script that is finally
// reported is confirmed with the full limit again.)
var deadlockTimeout = 20 * time.Second

func init() {
	if v, err := strconv.Atoi(os.Getenv("TABSIM_DEADLOCK_S")); err == nil && v > 0 {
		deadlockTimeout = time.Duration(v) * time.Second
	}
}

// ExitDeadlock is the exit code of a process whose scheduler found the
// released task blocked for good.
const ExitDeadlock = 78

// HarnessTrouble is panicked (and turned into exit code 2 by main) when the
// simulator itself misbehaves; it is never reported as a violation.
type HarnessTrouble struct{ Msg string }

func (h HarnessTrouble) Error() string { return "harness trouble: " + h.Msg }

func NewSched(schedule []int, log *EventLog) *Sched {
	return &Sched{schedule: schedule, events: make(chan schedEvent), log: log, trace: newHasher(), Sites: map[string]int{}, current: -1}
}

// Yield parks the calling task until the scheduler releases it.
func (t *Task) Yield(site string) {
	s := t.s
	if s.current >= 0 && s.current != t.id {
		// A seam object owned by task t was invoked on the thread of another
		// task: state has leaked between callers that share nothing.  Record it
		// and park the task that is actually running.
		if len(s.Cross) < 8 {
			s.Cross = append(s.Cross, "a seam object of task "+strconv.Itoa(t.id)+" was invoked by task "+strconv.Itoa(s.current)+" at "+site)
		}
		t = s.tasks[s.current]
	}
	s.events <- schedEvent{task: t.id, site: site}
	<-t.release
}

// Go adds a task; it starts parked at site "start".
func (s *Sched) Go(fn func(y Yielder)) {
	t := &Task{id: len(s.tasks), s: s, release: make(chan struct{})}
	s.tasks = append(s.tasks, t)
	go func() {
		var pi *PanicInfo
		defer func() {
			s.events <- schedEvent{task: t.id, done: true, pi: pi}
		}()
		defer func() {
			if r := recover(); r != nil {
				if ht, ok := r.(HarnessTrouble); ok {
					pi = &PanicInfo{Value: "HARNESS: " + ht.Msg, Frame: "harness"}
					return
				}
				pi = capturePanic(r)
			}
		}()
		t.Yield("start")
		fn(t)
	}()
}

var activeSched *Sched

// CurrentYield is what global hooks (the registry's SimYield) call: it parks
// the task that is running right now.  Outside a concurrent run it is a no-op.
func CurrentYield(site string) {
	s := activeSched
	if s == nil || s.current < 0 {
		return
	}
	s.tasks[s.current].Yield(site)
}

func (s *Sched) wait() schedEvent {
	// (one-second ticks are counted, not wall-clock time: a machine frozen for a
	// minute lets one tick pass, not sixty)
	for ticks := 0; time.Duration(ticks)*time.Second < deadlockTimeout; ticks++ {
		select {
		case ev := <-s.events:
			return ev
		case <-time.After(time.Second):
		}
	}
	select {
	case ev := <-s.events:
		return ev
	default:
		// The one task that was released neither reached its next seam nor
		// finished: with every other task parked (none of them holding a lock
		// the simulator knows of) that is a deadlock inside the code under test —
		// typically a lock taken while another one is held.  The blocked
		// goroutines cannot be unwound; the process exits with a code of its own
		// and the coordinator confirms in a fresh process.
		fmt.Fprintln(os.Stderr, "tabsim: released task is blocked: deadlock")
		os.Exit(ExitDeadlock)
		panic("unreachable")
	}
}

// Run drives all tasks to completion.
func (s *Sched) Run() {
	activeSched = s
	defer func() { activeSched = nil }()
	live := len(s.tasks)
	// every task first parks at "start"
	for i := 0; i < len(s.tasks); i++ {
		ev := s.wait()
		s.tasks[ev.task].site = ev.site
	}
	last := -1
	for live > 0 {
		e := 0
		if s.pos < len(s.schedule) {
			e = s.schedule[s.pos]
			if e < 0 {
				e = -e
			}
		}
		s.pos++
		var pickT *Task
		if e == 0 && last >= 0 && !s.tasks[last].done {
			pickT = s.tasks[last]
		} else {
			var others []*Task
			for _, t := range s.tasks {
				if !t.done && t.id != last {
					others = append(others, t)
				}
			}
			if len(others) == 0 {
				pickT = s.tasks[last]
			} else if e == 0 {
				pickT = others[0]
			} else {
				pickT = others[(e-1)%len(others)]
			}
		}
		if pickT.id != last && last >= 0 {
			s.Switches++
			if !s.tasks[last].done {
				s.Sites["preempted_at_"+s.tasks[last].site]++
			}
		}
		last = pickT.id
		s.current = pickT.id
		s.trace.num(pickT.id)
		s.trace.str(pickT.site)
		if s.log != nil {
			s.log.Add("sched t" + strconv.Itoa(pickT.id) + " from " + pickT.site)
		}
		pickT.release <- struct{}{}
		ev := s.wait()
		if ev.task != pickT.id {
			panic(HarnessTrouble{fmt.Sprintf("event from task %d while task %d was the only one released", ev.task, pickT.id)})
		}
		s.current = -1
		if ev.done {
			pickT.done = true
			live--
			if ev.pi != nil {
				if ev.pi.Frame == "harness" {
					panic(HarnessTrouble{ev.pi.Value})
				}
				s.Panics = append(s.Panics, "t"+strconv.Itoa(pickT.id)+": "+ev.pi.Frame+": "+ev.pi.Value)
			}
			continue
		}
		s.Yields++
		pickT.site = ev.site
	}
}

func (s *Sched) TraceHash() uint64 { return s.trace.h }
