package sim

import (
	"os"
	"sync/atomic"
	"os/exec"
	"strings"
	"time"
)

// death describes a worker that did not survive a run.
type death struct {
	kind   string // "hang", "deadlock" or "crash:<normalised fatal error>"
	idx    int
	worker int // the worker executed runs worker, worker+stride, ... before idx
	stride int
}

func isDeathSig(sig string) bool {
	return strings.HasSuffix(sig, "/hang") || strings.HasSuffix(sig, "/deadlock") || strings.Contains(sig, "/crash:")
}

// execOutcome executes a script file in a child process (`tabsim exec-one`)
// and classifies what happened: "ok", "hang", or "crash:<...>".
//
// timeout is the limit for ONE execution (each run of the prelude, then the
// script): the child watches its own executions (WatchExecutions) and exits 77
// when one of them does not end.  The parent only keeps an outer limit that
// allows for the whole prelude; reaching that is not a verdict ("slow").
func execOutcome(exe, path string, timeout time.Duration, prelude int, env ...string) string {
	_ = prelude
	cmd := exec.Command(exe, "exec-one", path)
	cmd.Env = append(os.Environ(), env...)
	var stderr strings.Builder
	cmd.Stderr = &stderr
	stdout, perr := cmd.StdoutPipe()
	if perr != nil || cmd.Start() != nil {
		return "exit"
	}
	// the child writes a line when it starts an execution (each run of the
	// prelude, then the script); the limit applies to one execution, and it is
	// counted in one-second ticks of this process, not in wall-clock time
	var started int64
	go func() {
		buf := make([]byte, 4096)
		for {
			n, rerr := stdout.Read(buf)
			for _, b := range buf[:n] {
				if b == '\n' {
					atomic.AddInt64(&started, 1)
				}
			}
			if rerr != nil {
				return
			}
		}
	}()
	done := make(chan error, 1)
	go func() { done <- cmd.Wait() }()
	var err error
	last, stuck := int64(-1), 0
wait:
	for {
		select {
		case err = <-done:
			break wait
		case <-time.After(time.Second):
			if cur := atomic.LoadInt64(&started); cur == last {
				stuck++
			} else {
				last, stuck = cur, 0
			}
			if time.Duration(stuck)*time.Second > timeout {
				cmd.Process.Kill()
				<-done
				return "hang"
			}
		}
	}
	out := []byte(stderr.String())
	if err == nil {
		return "ok"
	}
	if ee, ok := err.(*exec.ExitError); ok && ee.ExitCode() == ExitDeadlock {
		return "deadlock"
	}
	if strings.Contains(string(out), "fatal error: all goroutines are asleep - deadlock!") {
		// the same hang, seen by a process that has no watchdog goroutine: the Go
		// runtime notices that nothing can ever run again
		return "hang"
	}
	if i := strings.Index(string(out), "fatal error: "); i >= 0 {
		line := string(out)[i+len("fatal error: "):]
		if j := strings.IndexByte(line, '\n'); j >= 0 {
			line = line[:j]
		}
		return "crash:" + strings.ReplaceAll(normalisePanic(line), " ", "-")
	}
	return "exit"
}

// minimizeDeath confirms that the script alone kills a fresh process in the
// recorded way and shrinks it with one process per candidate.
func minimizeDeath(exe string, s *Script, sig string, tmp string, hangTimeout time.Duration) *Script {
	timeout := hangTimeout
	var env []string
	test := func(c *Script) bool {
		cc := c.Clone()
		if cc.WriteFile(tmp) != nil {
			return false
		}
		return s.Property+"/"+execOutcome(exe, tmp, timeout, preludeRuns(cc), env...) == sig
	}
	// confirmation gets three times the watchdog's limit: a run that is merely
	// slow must end up as harness trouble, never as a reported hang
	timeout = 3 * hangTimeout
	if !test(s) {
		return nil
	}
	// candidates: a legitimate run of a smaller script is far below a third of
	// the limit; every candidate that still hangs costs that long, so few are tried
	budget := 60
	if strings.HasSuffix(sig, "/hang") {
		timeout = hangTimeout / 3
		budget = 10
	}
	if strings.HasSuffix(sig, "/deadlock") {
		env = []string{"TABSIM_DEADLOCK_S=5"}
		budget = 14
	}
	min := MinimizeWith(s, budget, test)
	timeout = hangTimeout
	env = nil
	if !test(min) {
		return s.Clone()
	}
	return min
}

// deathWithPrelude: the script does not kill a fresh process alone; does it
// after the given earlier runs, executed in the same fresh process?  The
// prelude is then shortened from the front (halving) while the outcome persists.
func deathWithPrelude(exe string, s *Script, sig string, tmp string, hangTimeout time.Duration, pre *Prelude) *Script {
	if len(pre.Indices) == 0 {
		return nil
	}
	var env []string
	test := func(c *Script, timeout time.Duration) bool {
		if c.Clone().WriteFile(tmp) != nil {
			return false
		}
		return s.Property+"/"+execOutcome(exe, tmp, timeout, preludeRuns(c), env...) == sig
	}
	c := s.Clone()
	c.Prelude = pre
	if !test(c, 3*hangTimeout) {
		return nil
	}
	if strings.HasSuffix(sig, "/deadlock") {
		env = []string{"TABSIM_DEADLOCK_S=5"}
	}
	for tries := 0; len(c.Prelude.Indices) > 1 && tries < 7; tries++ {
		half := c.Clone()
		half.Prelude.Indices = half.Prelude.Indices[len(half.Prelude.Indices)/2:]
		if !test(half, hangTimeout/3+time.Duration(len(half.Prelude.Indices))*50*time.Millisecond) {
			break
		}
		c = half
	}
	env = nil
	if !test(c, 3*hangTimeout) {
		c = s.Clone()
		c.Prelude = pre
	}
	return c
}
