package sim

import (
	"context"
	"os/exec"
	"strings"
	"time"
)

// death describes a worker that did not survive a run.
type death struct {
	kind string // "hang" or "crash:<normalised fatal error>"
	idx  int
}

func isDeathSig(sig string) bool {
	return strings.HasSuffix(sig, "/hang") || strings.HasSuffix(sig, "/deadlock") || strings.Contains(sig, "/crash:")
}

// execOutcome executes a script file in a child process (`tabsim exec-one`)
// and classifies what happened: "ok", "hang", or "crash:<...>".
func execOutcome(exe, path string, timeout time.Duration) string {
	ctx, cancel := context.WithTimeout(context.Background(), timeout)
	defer cancel()
	out, err := exec.CommandContext(ctx, exe, "exec-one", path).CombinedOutput()
	if ctx.Err() != nil {
		return "hang"
	}
	if err == nil {
		return "ok"
	}
	if ee, ok := err.(*exec.ExitError); ok && ee.ExitCode() == ExitDeadlock {
		return "deadlock"
	}
	if i := strings.Index(string(out), "fatal error: "); i >= 0 {
		line := string(out)[i+len("fatal error: "):]
		if j := strings.IndexByte(line, '\n'); j >= 0 {
			line = line[:j]
		}
		return "crash:" + strings.ReplaceAll(normalisePanic(line), " ", "-")
	}
	return "exit"
}

// minimizeDeath confirms that the script alone kills a fresh process in the
// recorded way and shrinks it with one process per candidate.
func minimizeDeath(exe string, s *Script, sig string, tmp string) *Script {
	timeout := hangTimeout
	test := func(c *Script) bool {
		cc := c.Clone()
		if cc.WriteFile(tmp) != nil {
			return false
		}
		return s.Property+"/"+execOutcome(exe, tmp, timeout) == sig
	}
	// confirmation gets three times the watchdog's limit: a run that is merely
	// slow must end up as harness trouble, never as a reported hang
	timeout = 3 * hangTimeout
	if !test(s) {
		return nil
	}
	timeout = hangTimeout
	if strings.HasSuffix(sig, "/hang") {
		timeout = 60 * time.Second // candidates: a legitimate run of a smaller script is far below this
	}
	min := MinimizeWith(s, 60, test)
	timeout = hangTimeout
	if !test(min) {
		return s.Clone()
	}
	return min
}
