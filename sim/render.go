package sim

import (
	"errors"
	"fmt"
	"html/template"
	"io"
	"strconv"

	"go.pennock.tech/tabular"
	"go.pennock.tech/tabular/auto"
	"go.pennock.tech/tabular/csv"
	"go.pennock.tech/tabular/html"
	"go.pennock.tech/tabular/json"
	"go.pennock.tech/tabular/markdown"
	"go.pennock.tech/tabular/texttable"
	"go.pennock.tech/tabular/texttable/decoration"
)

const (
	FmtText  = 0
	FmtCSV   = 1
	FmtHTML  = 2
	FmtJSON  = 3
	FmtMD    = 4
	NFormats = 5
)

var fmtNames = []string{"text", "csv", "html", "json", "markdown"}

const (
	ViaPkg    = 0 // package-level Render / RenderTo
	ViaFresh  = 1 // a wrapper made for this step
	ViaReused = 2 // a wrapper kept by the world across steps
	ViaAuto   = 3 // auto.Wrap(t, style) and the wrapper's methods
	ViaAutoFn = 4 // the package-level auto.Render / auto.RenderTo functions
	NVia      = 5
)

var viaNames = []string{"pkg", "fresh", "reused", "auto", "autofn"}

// RenderSpec selects one of the ways a caller can render the table.
type RenderSpec struct {
	Format   int
	Deco     int // text only: index into DecoChoices()
	Via      int
	ToWriter bool // RenderTo(w) instead of Render()
	Flags    int  // html: bit0 row-class generator, bit1 caption/id/class; text/auto: bit0 "texttable." prefix
}

func (s RenderSpec) String() string {
	d := ""
	if s.Format == FmtText {
		d = "/" + DecoName(s.Deco)
	}
	to := "Render"
	if s.ToWriter {
		to = "RenderTo"
	}
	return fmt.Sprintf("%s%s/%s/%s/f%d", fmtNames[s.Format%NFormats], d, viaNames[s.Via%NVia], to, s.Flags)
}

// builtinDecos is fixed: single-task engines must not depend on what other
// runs in this process registered.
var builtinDecos = []string{
	decoration.D_ASCII_SIMPLE, decoration.D_NONE, decoration.D_UTF8_DOUBLE,
	decoration.D_UTF8_HEAVY, decoration.D_UTF8_LIGHT, decoration.D_UTF8_LIGHT_CURVED,
}

// NDecoChoices: the six built-ins, one custom decoration completed by
// Populate, one name that is not registered (rendering must then fail), and
// one decoration derived from a registered one by copying it and changing two
// glyphs (value copies of a Decoration must be independent of each other).
// The eleventh choice hands SetDecoration the EMPTY decoration value itself:
// a table so decorated refuses to render, however the wrapper was decorated before.
const NDecoChoices = 11

// htmlFlagMask: bit0 row-class generator, bit1 caption/id/class, bit3 a
// TemplateName shared by every wrapper that sets it.
const htmlFlagMask = 1 | 2 | 4 | 8 // bit 2 (4): text through auto wraps the caller's reused wrapper (C14 histories only)

const unknownDecoName = "no-such-decoration"

func DecoName(i int) string {
	i = pick(NDecoChoices, i)
	if i < len(builtinDecos) {
		return builtinDecos[i]
	}
	if i == len(builtinDecos) {
		return "custom"
	}
	if i == len(builtinDecos)+2 {
		return "derived"
	}
	if i == len(builtinDecos)+3 {
		return "boxless-inner"
	}
	if i == len(builtinDecos)+4 {
		return "empty-value"
	}
	return unknownDecoName
}

func customDeco() decoration.Decoration {
	d := decoration.Decoration{Horizontal: "=", Vertical: "!", CrossPiece: "#"}
	d.Populate()
	return d
}

func rowClassGen(y Yielder, log *EventLog) func(int, interface{}) template.HTMLAttr {
	return func(n int, ctx interface{}) template.HTMLAttr {
		if log != nil {
			log.Add("rowclass " + strconv.Itoa(n))
		}
		yield(y, "rowclass")
		return template.HTMLAttr("r" + strconv.Itoa(n%2))
	}
}

var errCallbackPanicked = errors.New("sim: a user callback panicked during this render")

type renderer interface {
	Render() (string, error)
	RenderTo(io.Writer) error
}

// wrapperFor builds (or fetches) the wrapper object for spec.  ok is false for
// the package-function route, which has no wrapper the caller can see.
func (w *World) wrapperFor(spec RenderSpec) (renderer, bool) {
	var t tabular.Table = w.Core
	switch spec.Via % NVia {
	case ViaPkg:
		if spec.Format == FmtHTML { // html has no package-level Render
			return html.Wrap(t), true
		}
		return nil, false
	case ViaAuto:
		if spec.Flags&4 != 0 && spec.Format%NFormats == FmtText && w.reuseText != nil {
			// auto is handed the caller's own text wrapper instead of the bare table:
			// what auto selects for ITS render must not re-decorate that wrapper
			w.probe("auto_around_the_callers_wrapper")
			return auto.Wrap(w.reuseText, w.autoStyle(spec)), true
		}
		return auto.Wrap(t, w.autoStyle(spec)), true
	case ViaAutoFn:
		return nil, false
	case ViaReused:
		switch spec.Format % NFormats {
		case FmtText:
			if w.reuseText == nil {
				w.reuseText = texttable.Wrap(t)
			}
			w.decorate(w.reuseText, spec)
			return w.reuseText, true
		case FmtCSV:
			if w.reuseCSV == nil {
				w.reuseCSV = csv.Wrap(t)
			}
			return w.reuseCSV, true
		case FmtHTML:
			if w.reuseHTML == nil {
				w.reuseHTML = html.Wrap(t)
			}
			w.htmlOpts(w.reuseHTML, spec)
			return w.reuseHTML, true
		case FmtJSON:
			if w.reuseJSON == nil {
				w.reuseJSON = json.Wrap(t)
			}
			return w.reuseJSON, true
		default:
			if w.reuseMD == nil {
				w.reuseMD = markdown.Wrap(t)
			}
			return w.reuseMD, true
		}
	}
	switch spec.Format % NFormats {
	case FmtText:
		tt := texttable.Wrap(t)
		w.decorate(tt, spec)
		return tt, true
	case FmtCSV:
		return csv.Wrap(t), true
	case FmtHTML:
		ht := html.Wrap(t)
		w.htmlOpts(ht, spec)
		return ht, true
	case FmtJSON:
		return json.Wrap(t), true
	}
	return markdown.Wrap(t), true
}

func (w *World) decorate(tt *texttable.TextTable, spec RenderSpec) {
	name := DecoName(spec.Deco)
	if name == "custom" {
		tt.SetDecoration(customDeco())
		return
	}
	if name == "derived" {
		d := decoration.Named(decoration.D_UTF8_LIGHT)
		d.TopLeft, d.HRule = "*", "~"
		tt.SetDecoration(d)
		return
	}
	if name == "empty-value" {
		tt.SetDecoration(decoration.EmptyDecoration)
		return
	}
	if name == "boxless-inner" {
		// the boxless decoration with column dividers: content lines only, "a | b"
		d := decoration.NoBox()
		d.VBodyInner, d.VHeader = "|", "|"
		tt.SetDecoration(d)
		return
	}
	tt.SetDecorationNamed(name)
}

func (w *World) htmlOpts(ht *html.HTMLTable, spec RenderSpec) {
	if spec.Flags&1 != 0 {
		ht.SetRowClassGenerator(rowClassGen(w.Y, w.Log), nil)
	} else {
		ht.SetRowClassGenerator(nil, nil)
	}
	if spec.Flags&2 != 0 {
		ht.Caption, ht.Id, ht.Class = "cap <&> tion", "id\"1", "c1 c2"
	} else {
		ht.Caption, ht.Id, ht.Class = "", "", ""
	}
	if spec.Flags&8 != 0 {
		ht.TemplateName = "shared-name"
	} else {
		ht.TemplateName = ""
	}
}

func (w *World) autoStyle(spec RenderSpec) string {
	switch spec.Format % NFormats {
	case FmtCSV:
		return "csv"
	case FmtHTML:
		return "html"
	case FmtJSON:
		return "json"
	case FmtMD:
		return "markdown"
	}
	name := DecoName(spec.Deco)
	if name == "custom" || name == "derived" || name == "boxless-inner" {
		name = decoration.D_UTF8_HEAVY
	}
	if name == "empty-value" {
		name = unknownDecoName // a style string cannot carry a value
	}
	if spec.Flags&2 != 0 && name == decoration.D_UTF8_HEAVY {
		return "texttable" // the default decoration, selected by the bare package name
	}
	if spec.Flags&1 != 0 {
		return "texttable." + name
	}
	return name
}

// Render performs one render the way spec says.  sw is only used when
// spec.ToWriter.  A panic is recovered and reported, never propagated.
func (w *World) Render(spec RenderSpec, sw io.Writer) (out string, err error, pi *PanicInfo) {
	defer func() {
		if r := recover(); r != nil {
			if _, ok := r.(SimPanic); ok {
				// the scripted panic of a user callback, recovered by the caller
				w.probe("callback_panic_recovered_by_the_caller")
				out, err = "", errCallbackPanicked
				return
			}
			pi = capturePanic(r)
		}
	}()
	if w.Log != nil {
		w.Log.Add("render " + spec.String())
	}
	w.beginPass()
	w.rendered = true
	var t tabular.Table = w.Core
	// a renderer that refuses the table (unknown decoration, no columns, no
	// headers...) may or may not have run the render callbacks before refusing:
	// an error together with no callback event at all is accepted as "no pass"
	defer func() {
		if err != nil && len(w.cbEvents) == 0 {
			w.passExpected = nil
		}
	}()
	rr, ok := w.wrapperFor(spec)
	if ok {
		if spec.ToWriter {
			err = rr.RenderTo(sw)
		} else {
			out, err = rr.Render()
		}
		return
	}
	if spec.Via%NVia == ViaAutoFn {
		if spec.ToWriter {
			err = auto.RenderTo(t, sw, w.autoStyle(spec))
		} else {
			out, err = auto.Render(t, w.autoStyle(spec))
		}
		return
	}
	// package-level functions
	switch spec.Format % NFormats {
	case FmtText:
		if spec.ToWriter {
			err = texttable.RenderTo(t, sw)
		} else {
			out, err = texttable.Render(t)
		}
	case FmtCSV:
		if spec.ToWriter {
			err = csv.RenderTo(t, sw)
		} else {
			out, err = csv.Render(t)
		}
	case FmtJSON:
		if spec.ToWriter {
			err = json.RenderTo(t, sw)
		} else {
			out, err = json.Render(t)
		}
	default:
		if spec.ToWriter {
			err = markdown.RenderTo(t, sw)
		} else {
			out, err = markdown.Render(t)
		}
	}
	return
}

// AllRenderSpecs lists every renderer route × decoration once (no writer).
func AllRenderSpecs() []RenderSpec {
	var out []RenderSpec
	for f := 0; f < NFormats; f++ {
		for via := 0; via < NVia; via++ {
			if via == ViaReused {
				continue
			}
			if f == FmtText {
				if via == ViaPkg {
					out = append(out, RenderSpec{Format: f, Via: via, Deco: 3})
					continue
				}
				if via == ViaAutoFn {
					out = append(out, RenderSpec{Format: f, Via: via, Deco: 3, Flags: 2}, RenderSpec{Format: f, Via: via, Deco: 0})
					continue
				}
				for d := 0; d < NDecoChoices; d++ {
					if (via == ViaAuto || via == ViaAutoFn) && (DecoName(d) == "custom" || DecoName(d) == "derived" || DecoName(d) == "boxless-inner" || DecoName(d) == "empty-value") {
						continue
					}
					out = append(out, RenderSpec{Format: f, Via: via, Deco: d, Flags: d & 1})
				}
				continue
			}
			if f == FmtHTML && via == ViaFresh {
				out = append(out, RenderSpec{Format: f, Via: via, Flags: 3})
				out = append(out, RenderSpec{Format: f, Via: via, Flags: 8})
			}
			out = append(out, RenderSpec{Format: f, Via: via})
		}
	}
	return out
}

// rendererKeys are the public property keys renderers read from columns.
func rendererKeys() []interface{} {
	return []interface{}{alignKey(), skipKey()}
}
