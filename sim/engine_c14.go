package sim

import (
	"fmt"
	"math"

	"go.pennock.tech/tabular/texttable/decoration"

	"go.pennock.tech/tabular"
)

// Snapshot lists everything C14 says a render must leave unchanged: counts,
// every cell's text, location and item, every user-set property on every
// owner, and the error list.
func (w *World) Snapshot() []string {
	var out []string
	t := w.Tab
	out = append(out, fmt.Sprintf("nrows=%d ncols=%d", t.NRows(), t.NColumns()))
	cell := func(tag string, c *tabular.Cell) {
		id, ok := w.itemIDOf(c.Item())
		it := "?"
		if ok {
			it = fmt.Sprint(id)
		} else if c.Item() == nil {
			it = "nil"
		} else {
			it = fmt.Sprintf("%T", c.Item())
		}
		out = append(out, fmt.Sprintf("%s text=%q loc=%v item=%s empty=%v h=%d w=%d", tag, c.String(), c.Location(), it, c.Empty(), c.Height(), c.TerminalCellWidth()))
	}
	hs := t.Headers()
	if hs == nil {
		out = append(out, "headers=nil")
	}
	for i := range hs {
		cell(fmt.Sprintf("header[%d]", i), &hs[i])
	}
	for r, row := range t.AllRows() {
		out = append(out, fmt.Sprintf("row[%d] sep=%v loc=%v ncells=%d", r, row.IsSeparator(), row.Location(), len(row.Cells())))
		cs := row.Cells()
		for c := range cs {
			cell(fmt.Sprintf("cell[%d,%d]", r+1, c+1), &cs[c])
		}
	}
	// user-set properties: every key of the pool on every owner
	w.initPropModel()
	for n := range w.colOwners {
		w.wireColumn(n)
	}
	for _, o := range w.ownersAll() {
		po := o.access()
		if po == nil {
			continue
		}
		for ki, key := range w.keyPool {
			if v := po.GetProperty(key); v != nil {
				out = append(out, fmt.Sprintf("prop %s key#%d=%v", o.name, ki, v))
			}
		}
	}
	for n := 0; n <= t.NColumns(); n++ {
		if c := t.Column(n); c != nil {
			for _, k := range rendererKeys() {
				if v := c.GetProperty(k); v != nil {
					out = append(out, fmt.Sprintf("prop col%d %v=%v", n, k, v))
				}
			}
		}
	}
	errs := t.Errors()
	out = append(out, fmt.Sprintf("errors nil=%v n=%d", errs == nil, len(errs)))
	for i, e := range errs {
		out = append(out, fmt.Sprintf("error[%d]=%v", i, e))
	}
	return out
}

// renderDecoy renders a fixed table of a different shape (fresh each time).
func (w *World) renderDecoy(st *Step) {
	defer func() { recover() }()
	d := NewWorld(0, "", nil, nil)
	if st.C&2 != 0 {
		d.Tab.AddHeaders("id", "name", "id") // JSON refuses duplicate headers, after having seen some
	} else {
		d.Tab.AddHeaders("decoy header one", "h2", "third")
	}
	d.Tab.AddRowItems("a much longer decoy cell than anything else", 1, true)
	if st.C&1 != 0 {
		// a cell the JSON renderer rejects after it has started writing
		d.Tab.AddRowItems("ok", math.NaN())
	}
	d.Tab.AddSeparator()
	d.Tab.AddRowItems("x\ny", "z")
	d.Log = NewEventLog(false)
	d.Render(RenderSpec{Format: pick(NFormats, st.A), Deco: pick(NDecoChoices, st.B), Via: ViaFresh}, nil)
	w.probe("decoy_table_rendered_in_between")
}

func diffSnap(a, b []string) string {
	for i := 0; i < len(a) || i < len(b); i++ {
		x, y := "<absent>", "<absent>"
		if i < len(a) {
			x = a[i]
		}
		if i < len(b) {
			y = b[i]
		}
		if x != y {
			return fmt.Sprintf("before: %s | after: %s", x, y)
		}
	}
	return ""
}

// effectiveKey names the output a render step must reproduce: format,
// effective decoration and renderer options — not the route taken to it.
func effectiveKey(spec RenderSpec) string { return effectiveKeyOv(spec, false) }

// effectiveKeyOv: once the application has overwritten the built-in name
// "utf8-heavy", the DEFAULT decoration (package route, bare "texttable") and
// the decoration selected BY THAT NAME are two different things.
func effectiveKeyOv(spec RenderSpec, heavyOverwritten bool) string {
	switch spec.Format {
	case FmtText:
		name := DecoName(spec.Deco)
		byDefault := spec.Via == ViaPkg
		if spec.Via == ViaPkg {
			name = "utf8-heavy"
		}
		if (spec.Via == ViaAuto || spec.Via == ViaAutoFn) && (name == "custom" || name == "derived" || name == "boxless-inner") {
			name = "utf8-heavy"
		}
		if (spec.Via == ViaAuto || spec.Via == ViaAutoFn) && name == "empty-value" {
			name = unknownDecoName
		}
		if (spec.Via == ViaAuto || spec.Via == ViaAutoFn) && name == "utf8-heavy" && spec.Flags&2 != 0 {
			byDefault = true
		}
		if heavyOverwritten && byDefault {
			return "text/default"
		}
		return "text/" + name
	case FmtHTML:
		if spec.Via == ViaAuto || spec.Via == ViaAutoFn || spec.Via == ViaPkg {
			return "html/f0"
		}
		return fmt.Sprintf("html/f%d", spec.Flags&3) // the template name does not show in the output
	}
	return fmtNames[spec.Format]
}

type engC14 struct{}

func init() { Register(engC14{}) }

func (engC14) ID() string    { return "C14" }
func (engC14) Level() string { return "exploration" }
func (engC14) Runs(tier string) int {
	if tier == "thorough" {
		return 8000000
	}
	return 12000
}
func (engC14) Rule() string {
	return "each run builds a seeded table (all item kinds incl. SimItems with declared sizes, ragged rows, separators, late adds, user properties on table/columns/rows/cells, alignment and skipable settings, errors already in the list, non-failing non-mutating logging callbacks at any level) and then performs a render history of 2-14 steps drawn from {text under each decoration, csv, html with/without row-class generator and caption, json, markdown} x {package function, fresh wrapper, wrapper reused across steps, auto} x {Render(), RenderTo(SimWriter)}; in fault-injecting runs some steps render to a writer that fails midway (output not compared). Oracle: every fault-free render equals, byte for byte and in error-ness, the first fault-free render with the same (format, decoration, options) in that history — also after aborted renders; the observable snapshot (counts, every cell's text/location/item/size, every user property on every owner, Errors()) equals the snapshot taken before the first render after every step. Non-trivial = at least two comparable renders of one format; distinct = distinct (shape, render-key sequence) hashes."
}
func (engC14) Assumptions() []string {
	return []string{
		"user callbacks in these histories neither fail nor mutate (the statement's own proviso)",
		"outputs are keyed by format + effective decoration + renderer options, not by the route (package function / wrapper / auto): routes agreeing is what any caller sees as 'the same format'",
		"the renderers' private measurement keys on cells are not part of the snapshot (the statement lists user-set properties)",
		"a renderer panic is C09's; the run is cut and counted as foreign",
	}
}

func (engC14) Gen(r *Rng, s *Script, idx int, tier string) {
	s.Config["kind"] = r.Intn(7)
	ctr := 0
	m := drawBuildMix(r)
	m.scramble = 0
	if r.Chance(2, 3) {
		s.Steps = append(s.Steps, Step{Op: "headers", Items: genItems(r, r.Range(1, 4), 1, &ctr)})
	}
	nb := r.Range(0, 10)
	if tier == "thorough" && r.Chance(1, 3) {
		nb = r.Range(8, 30)
	}
	level := 1 + r.Intn(2)
	for i := 0; i < nb; i++ {
		switch r.Pick([]int{10, 3, 1, 1, 2, 1}) {
		case 5:
			switch r.Intn(4) {
			case 0:
				s.Steps = append(s.Steps, Step{Op: "copyCell", A: r.Intn(4), B: r.Intn(3)})
			case 1:
				s.Steps = append(s.Steps, Step{Op: "copyCell", A: r.Intn(4), B: r.Intn(3)}, Step{Op: "addCopy", A: 0, B: r.Intn(3)})
			case 2:
				s.Steps = append(s.Steps, Step{Op: "attachOther", A: r.Intn(3)})
			default:
				s.Steps = append(s.Steps, Step{Op: "nestCell", A: r.Intn(4), B: r.Intn(3)})
			}
		case 0:
			s.Steps = append(s.Steps, genBuildStep(r, m, level, &ctr))
		case 1:
			s.Steps = append(s.Steps, Step{Op: "setProp", A: r.Intn(12), C: r.Intn(14), D: r.Pick([]int{1, 4})})
		case 2:
			if r.Chance(1, 2) {
				s.Steps = append(s.Steps, Step{Op: "align", A: r.Intn(5), B: r.Intn(4)})
			} else {
				s.Steps = append(s.Steps, Step{Op: "skipable", A: r.Intn(5), B: r.Pick([]int{2, 2, 2, 1, 1})})
			}
		case 3:
			if r.Chance(1, 2) {
				s.Steps = append(s.Steps, Step{Op: "tableError"})
			} else {
				s.Steps = append(s.Steps, Step{Op: "rowError", A: r.Intn(3)})
			}
		default:
			s.Steps = append(s.Steps, genRegister(r, false, false))
		}
	}
	if level >= 2 && r.Chance(1, 4) {
		// items changed behind the table's back, with no Update: renders must not re-read them
		for i := r.Range(1, 3); i > 0; i-- {
			s.Steps = append(s.Steps, Step{Op: "mutate", A: r.Intn(6)})
		}
	}
	faultPct := 0
	if r.Chance(1, 2) {
		faultPct = 25
		s.Config["faults"] = 1
	}
	nr := r.Range(2, 14)
	focus := -1
	if r.Chance(1, 2) {
		focus = r.Intn(NFormats)
	}
	autoFocus := r.Chance(1, 5)
	family := !autoFocus && r.Chance(1, 6)
	growth := r.Chance(1, 5)
	overwrite := r.Chance(1, 10)
	for i := 0; i < nr; i++ {
		if growth && i > 0 && r.Chance(1, 4) {
			// the table changes between renders (wrappers kept by the caller stay in use)
			switch r.Intn(5) {
			case 0:
				s.Steps = append(s.Steps, Step{Op: "rowItems", Items: genItems(r, r.Range(0, 4), level, &ctr)})
			case 1:
				s.Steps = append(s.Steps, Step{Op: "separator"})
			case 2:
				s.Steps = append(s.Steps, Step{Op: "appendNewRow"}, Step{Op: "rowAdd", A: 0, Items: genItems(r, 1, level, &ctr)})
			default:
				if r.Chance(1, 2) {
					s.Steps = append(s.Steps, Step{Op: "copyCell", A: r.Intn(4), B: r.Intn(3)}, Step{Op: "addCopy", A: 0, B: r.Intn(3)})
				} else {
					s.Steps = append(s.Steps, Step{Op: "headers", Items: genItems(r, r.Range(1, 5), 1, &ctr)})
				}
			}
		}
		if overwrite && i > 0 && r.Chance(1, 3) {
			s.Steps = append(s.Steps, Step{Op: "overwriteHeavy", A: r.Intn(16)})
		}
		st := genRenderStep(r, faultPct)
		if overwrite && r.Chance(1, 2) {
			st.A, st.B, st.C = FmtText, 3, []int{ViaPkg, ViaFresh, ViaAuto, ViaAutoFn, ViaReused}[r.Intn(5)]
		}
		if focus >= 0 && r.Chance(1, 2) {
			st.A = focus
		}
		if r.Chance(1, 3) {
			st.C = ViaReused
		}
		if family {
			// text renders under decorations that are value copies of one another
			st.A, st.B = FmtText, []int{4, 8, 5, 8}[r.Intn(4)]
			if st.C == ViaPkg || st.C == ViaAuto || st.C == ViaAutoFn {
				st.C = ViaFresh
			}
			if r.Chance(1, 3) {
				s.Steps = append(s.Steps, Step{Op: "decoyRender", A: FmtText, B: []int{4, 8, 5}[r.Intn(3)]})
			}
		} else if r.Chance(1, 8) {
			s.Steps = append(s.Steps, Step{Op: "decoyRender", A: r.Intn(NFormats), B: r.Intn(NDecoChoices), C: r.Intn(4)})
			if r.Chance(1, 2) {
				s.Steps = append(s.Steps, Step{Op: "decoyRender", A: FmtJSON, C: 1 + r.Intn(3)})
			}
		}
		if autoFocus && r.Chance(1, 2) {
			// the auto routes, alternating the bare "texttable" style with named decorations
			st.A, st.C = FmtText, []int{ViaAuto, ViaAutoFn}[r.Intn(2)]
			if r.Chance(1, 2) {
				st.B, st.D = 3, 2
			}
		}
		s.Steps = append(s.Steps, st)
	}
}

func (engC14) Exec(s *Script, keepLog bool) (guarded *Result) {
	defer guardExec("C14", &guarded)
	w := NewWorld(s.Cfg("kind", 0), "utf8-light", nil, NewEventLog(keepLog))
	res := &Result{}
	type first struct {
		out  string
		err  bool
		step int
	}
	firsts := map[string]first{}
	var snap0 []string
	compared := 0
	heavyOverwritten := false
	defer decoration.RegisterDecorationName(decoration.D_UTF8_HEAVY, decoration.UTF8BoxHeavy()) // leave the process as found
	keys := newHasher()
	runSteps(w, s.Steps, res, func(i int, st *Step) *Violation {
		if st.Op == "overwriteHeavy" {
			// the application re-registers the built-in name "utf8-heavy": renders
			// BY THAT NAME legitimately change (a new baseline from here on)
			delete(firsts, "text/utf8-heavy")
			heavyOverwritten = true
			decoration.RegisterDecorationName(decoration.D_UTF8_HEAVY, variantDeco(pick(16, st.A)))
			w.probe("builtin_utf8_heavy_overwritten")
			return nil
		}
		if st.Op == "decoyRender" {
			// another table of another shape is rendered in between, in the same
			// process, through the same decorations: nothing of that may show here
			w.renderDecoy(st)
			return nil
		}
		if st.Op != "render" {
			w.Apply(st)
			if snap0 != nil {
				// the caller changed the table between renders: a new baseline.  Every
				// render from here on — through a fresh wrapper or through one kept
				// from before the change — must agree with the first one after the
				// change: nothing an earlier render left behind may show.
				snap0 = nil
				firsts = map[string]first{}
				w.probe("table_changed_between_renders")
			}
			return nil
		}
		if snap0 == nil {
			snap0 = w.Snapshot()
		}
		ro := w.ApplyRender(st)
		if ro.Panic != nil {
			return stopRun
		}
		key := effectiveKeyOv(ro.Spec, heavyOverwritten)
		keys.str(key)
		fname := fmtNames[ro.Spec.Format]
		if ro.Faulted {
			w.probe("aborted_render")
		} else if key == "text/default" {
			// The application has re-registered the name of the built-in that the
			// default decoration is made from.  Whether the DEFAULT follows that name
			// (at wrap time? at render time?) or stays what it was is not stated:
			// default-decoration renders are not compared across such a history.
			w.probe("default_decoration_render_after_builtin_overwrite_not_compared")
		} else {
			if ro.Err != nil {
				// Render() returns no text on error while RenderTo leaves what was
				// written before it; only the error-ness is comparable across both
				ro.Out = ""
			}
			f, seen := firsts[key]
			if !seen {
				firsts[key] = first{ro.Out, ro.Err != nil, i}
			} else {
				compared++
				if f.err != (ro.Err != nil) {
					return &Violation{Property: "C14", Signature: "C14/error-differs:" + fname,
						Detail: fmt.Sprintf("%s at step %d: error=%v, but the first render of %s (step %d) had error=%v", ro.Spec, i, ro.Err, key, f.step, f.err)}
				}
				if f.out != ro.Out {
					return &Violation{Property: "C14", Signature: "C14/output-differs:" + fname,
						Detail: fmt.Sprintf("%s at step %d differs from the first render of %s (step %d): %s", ro.Spec, i, key, f.step, firstDiff(f.out, ro.Out))}
				}
				if ro.Spec.Via == ViaReused {
					w.probe("reused_wrapper_compared")
				}
			}
		}
		if d := diffSnap(snap0, w.Snapshot()); d != "" {
			return &Violation{Property: "C14", Signature: "C14/state-changed:" + fname,
				Detail: fmt.Sprintf("after %s (step %d) the table is not what it was before the first render: %s", ro.Spec, i, d)}
		}
		return nil
	}, func(i int, st *Step, pi *PanicInfo) *Violation { return nil })
	res.NonTrivial = compared > 0
	w.Probes["renders_compared"] += compared
	res.State = w.StateHash() ^ keys.h
	return finish(w, res)
}

func firstDiff(a, b string) string {
	n := len(a)
	if len(b) < n {
		n = len(b)
	}
	i := 0
	for i < n && a[i] == b[i] {
		i++
	}
	lo := i - 20
	if lo < 0 {
		lo = 0
	}
	ea, eb := i+20, i+20
	if ea > len(a) {
		ea = len(a)
	}
	if eb > len(b) {
		eb = len(b)
	}
	return fmt.Sprintf("lengths %d vs %d, first difference at byte %d: %q vs %q", len(a), len(b), i, a[lo:ea], b[lo:eb])
}
