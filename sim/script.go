package sim

import (
	"encoding/json"
	"fmt"
	"os"
)

// Item describes one value to be stored in a cell.  K selects the dynamic
// type: "s" string, "i" int, "b" bool, "n" nil, "f" float64, and the SimItem
// family "S" (String), "G" (GoString), "E" (Error), "Z" (String+Height+
// TerminalCellWidth), "H" (String+Height), "W" (String+TerminalCellWidth),
// "J" (String+MarshalJSON; N: 0 object, 1 error, 2 empty object, 3 string).
type Item struct {
	K string `json:"k"`
	S string `json:"s,omitempty"`
	N int    `json:"n,omitempty"`
	H int    `json:"h,omitempty"`
	W int    `json:"w,omitempty"`
}

// Step is one scripted operation.  The meaning of A..E, S, Items and Plan
// depends on Op (see world.go: the table above (*World).Do).  All references
// to objects are indices resolved modulo the set available at execution time,
// so any subsequence of a script is still executable.
type Step struct {
	Op    string `json:"op"`
	A     int    `json:"a,omitempty"`
	B     int    `json:"b,omitempty"`
	C     int    `json:"c,omitempty"`
	D     int    `json:"d,omitempty"`
	E     int    `json:"e,omitempty"`
	S     string `json:"s,omitempty"`
	Items []Item `json:"items,omitempty"`
	Plan  []int  `json:"plan,omitempty"`
}

// Script is a complete run description and is the replay file format.
type Script struct {
	Property string         `json:"property"`
	Seed     uint64         `json:"seed"`             // run seed (derived)
	Batch    uint64         `json:"batch"`            // VERIF_SEED of the batch
	Index    int            `json:"index"`            // run index in the batch
	Config   map[string]int `json:"config"`           // swarm configuration of this run
	Steps    []Step         `json:"steps"`            // single-task engines
	Tasks    [][]Step       `json:"tasks"`            // concurrent engines: one script per task
	Schedule []int          `json:"schedule"`         // concurrent engines: scheduler choices
	Expect   *Expect        `json:"expect,omitempty"` // set on replay files
	// Prelude: runs of the same batch to execute, in this order and in the same
	// process, before this script.  Used when a violation depends on state the
	// code under test keeps for the lifetime of the process (what earlier runs
	// registered, cached or pooled): the replay is then the history of runs.
	Prelude *Prelude `json:"prelude,omitempty"`
}

type Prelude struct {
	Batch   uint64 `json:"batch"`
	Tier    string `json:"tier"`
	Indices []int  `json:"indices"`
	Repeat  int    `json:"repeat,omitempty"` // execute the whole list this many times (default 1)
	// First and Stride describe the worker whose history this is (it executed
	// runs First, First+Stride, ...).  A worker executes every 64th of its runs
	// twice (the determinism recheck); with Stride set the prelude does the same,
	// so that state which depends on how often something ran — or on what the
	// allocator and the garbage collector did meanwhile — builds up the same way.
	First  int `json:"first,omitempty"`
	Stride int `json:"stride,omitempty"`
}

// RunPrelude executes the prelude runs (results ignored).
func RunPrelude(e Engine, s *Script, exec func(*Script)) {
	if s.Prelude == nil {
		return
	}
	rep := s.Prelude.Repeat
	if rep < 1 {
		rep = 1
	}
	for ; rep > 0; rep-- {
		for _, idx := range s.Prelude.Indices {
			p := GenScript(e, s.Prelude.Batch, idx, s.Prelude.Tier)
			exec(p)
			if st := s.Prelude.Stride; st > 0 && idx >= s.Prelude.First && ((idx-s.Prelude.First)/st)%64 == 0 {
				exec(GenScript(e, s.Prelude.Batch, idx, s.Prelude.Tier))
			}
		}
	}
}

// Expect is what a replay file must reproduce.
type Expect struct {
	Signature string `json:"signature"`
	Detail    string `json:"detail"`
	LogHash   string `json:"log_hash"`
}

func (s *Script) Clone() *Script {
	c := *s
	c.Config = map[string]int{}
	for k, v := range s.Config {
		c.Config[k] = v
	}
	c.Steps = cloneSteps(s.Steps)
	if s.Tasks != nil {
		c.Tasks = make([][]Step, len(s.Tasks))
		for i := range s.Tasks {
			c.Tasks[i] = cloneSteps(s.Tasks[i])
		}
	}
	c.Schedule = append([]int(nil), s.Schedule...)
	c.Expect = nil
	if s.Prelude != nil {
		p := *s.Prelude
		p.Indices = append([]int(nil), s.Prelude.Indices...)
		c.Prelude = &p
	}
	return &c
}

func cloneSteps(in []Step) []Step {
	if in == nil {
		return nil
	}
	out := make([]Step, len(in))
	for i, st := range in {
		out[i] = st
		out[i].Items = append([]Item(nil), st.Items...)
		out[i].Plan = append([]int(nil), st.Plan...)
	}
	return out
}

func (s *Script) Cfg(key string, def int) int {
	if v, ok := s.Config[key]; ok {
		return v
	}
	return def
}

func (s *Script) JSON() []byte {
	b, err := json.Marshal(s)
	if err != nil {
		panic(err)
	}
	return b
}

func (s *Script) Hash() string { return fmt.Sprintf("%016x", hashString(string(s.JSON()))) }

func (s *Script) WriteFile(path string) error {
	b, err := json.MarshalIndent(s, "", " ")
	if err != nil {
		return err
	}
	return os.WriteFile(path, append(b, '\n'), 0o644)
}

func ReadScript(path string) (*Script, error) {
	b, err := os.ReadFile(path)
	if err != nil {
		return nil, err
	}
	var s Script
	if err := json.Unmarshal(b, &s); err != nil {
		return nil, err
	}
	if s.Config == nil {
		s.Config = map[string]int{}
	}
	return &s, nil
}

// NSteps is the total number of steps over Steps and Tasks.
func (s *Script) NSteps() int {
	n := len(s.Steps)
	for _, t := range s.Tasks {
		n += len(t)
	}
	return n
}
