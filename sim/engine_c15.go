package sim

import (
	"bytes"
	"fmt"
	"io"
	"os"
	"time"

	"go.pennock.tech/tabular/properties"
	"go.pennock.tech/tabular/properties/align"
)

// doColumnSetting handles the two renderer-visible column settings used by
// the fault engines ("align": A column, B 0 unset/1 left/2 right/3 centre;
// "skipable": A column, B 0 unset/1 true/2 false/3 the string "yes"/4 the int 1
// — the last two are not booleans: what a renderer makes of them is its
// business, but the value the caller set stays the value the column reports).
func (w *World) doColumnSetting(st *Step) bool {
	switch st.Op {
	case "align", "skipable":
	default:
		return false
	}
	n := pick(w.Core.NColumns()+1, st.A)
	col := w.Tab.Column(n)
	if col == nil {
		return true
	}
	if st.Op == "align" {
		var v interface{}
		switch pick(4, st.B) {
		case 1:
			v = align.Left
		case 2:
			v = align.Right
		case 3:
			v = align.Center
		}
		col.SetProperty(align.PropertyType, v)
		return true
	}
	var v interface{}
	switch pick(5, st.B) {
	case 1:
		v = true
	case 2:
		v = false
	case 3:
		v = "yes"
	case 4:
		v = 1
	}
	col.SetProperty(properties.Skipable, v)
	return true
}

// ---------------------------------------------------------------------------
// C15: fault enumeration at the writer seam.

type engC15 struct{}

func init() { Register(engC15{}) }

func (engC15) ID() string    { return "C15" }
func (engC15) Level() string { return "fault_enumeration" }
func (engC15) Runs(tier string) int {
	if tier == "thorough" {
		return 8000
	}
	return 120
}

// HangTimeout: a run executes several hundred faulted renders, of tall tables
// at times; seconds on an idle machine, 20 s measured on a machine loaded three times over.
func (engC15) HangTimeout() time.Duration { return 3 * time.Minute }

func (engC15) Rule() string {
	return "each run builds one seeded table (headers, ragged/multi-line/wide/markup texts, separators, late Row.Add, alignment and skipable column settings; some tables are tall (66-140 more rows) or hold one cell of 10000 characters) and lists 6-10 renderer routes (text under every built-in decoration and a custom one, csv, html with/without row-class generator and caption, json, markdown; via wrapper.RenderTo on a fresh wrapper or on one wrapper reused for all faults of the route, package RenderTo and auto.RenderTo; plain io.Writer or one that also offers WriteString). For each route a fault-free pass records the output O and the number N of Write calls; then EVERY k in 0..N-1 x {sticky, once, partial-then-failing, partial-then-succeeding} is executed (exhaustive in the fault dimension, sampled over tables). evaluations counts faulted renders. A run is non-trivial if its table has a header and at least one row; distinct = distinct (table shape, route list) hashes."
}
func (engC15) Annotate(cov map[string]interface{}) {
	cov["exhaustive_in_fault_dimension"] = true
	cov["fault_space"] = "for each (table, route): every Write index k of the fault-free pass x {sticky, once, partial-then-failing, partial-then-succeeding}; 'exhaustive' stays false because tables are sampled"
}
func (engC15) Assumptions() []string {
	return []string{
		"the reference output is the implementation's own fault-free output for the same table and route (no format oracle is smuggled in)",
		"if a second fault-free render of the same table differs from the first, the mismatch is C14's and the route is skipped (counted as foreign)",
		"a panic while building the table or in the fault-free pass is C02's/C09's; such routes are skipped and counted as foreign",
	}
}

func (engC15) Gen(r *Rng, s *Script, idx int, tier string) {
	ctr := 0
	level := 1
	if r.Chance(1, 3) {
		level = 2
	}
	s.Config["kind"] = r.Intn(7)
	ncol := r.Range(1, 5)
	valid := !r.Chance(1, 6) // most tables are accepted by every renderer
	// headers
	hdr := make([]Item, ncol)
	for i := range hdr {
		ctr++
		hdr[i] = Item{K: "s", S: fmt.Sprintf("h%d%s", ctr, genWord(r))}
		if r.Chance(1, 5) {
			hdr[i].S += "\"<|>\n" + genWord(r)
		}
	}
	if !valid && r.Chance(1, 3) {
		hdr = hdr[:r.Intn(ncol)]
	}
	if valid || r.Chance(3, 4) {
		s.Steps = append(s.Steps, Step{Op: "headers", Items: hdr})
	}
	nrows := r.Range(0, 6)
	for i := 0; i < nrows; i++ {
		switch r.Intn(8) {
		case 0:
			s.Steps = append(s.Steps, Step{Op: "separator"})
		case 1:
			s.Steps = append(s.Steps, Step{Op: "appendNewRow"})
			n := r.Range(1, ncol)
			if !valid {
				n = r.Range(0, ncol+1)
			}
			for j := 0; j < n; j++ {
				s.Steps = append(s.Steps, Step{Op: "rowAdd", A: 0, Items: genItems(r, 1, level, &ctr)})
			}
		default:
			n := r.Range(1, ncol)
			if !valid && r.Chance(1, 3) {
				n = r.Range(0, ncol+1)
			}
			s.Steps = append(s.Steps, Step{Op: "rowItems", Items: genItems(r, n, level, &ctr)})
		}
	}
	tall := !valid && false
	if r.Chance(1, 15) {
		// far more lines than any block a renderer might write at once
		tall = true
		s.Config["tall_table"] = 1
		s.Steps = append(s.Steps, Step{Op: "bulkRows", A: r.Range(66, 140), B: r.Range(1, ncol)})
	}
	if r.Chance(1, 12) {
		// one cell far larger than any buffer a renderer might put in front of the writer
		s.Config["huge_cell"] = 1
		s.Steps = append(s.Steps, Step{Op: "rowItems", Items: []Item{{K: "s", S: "huge", N: 10000}}})
	}
	for i := r.Intn(3); i > 0; i-- {
		s.Steps = append(s.Steps, Step{Op: "align", A: r.Intn(ncol + 1), B: r.Intn(4)})
	}
	for i := r.Intn(3); i > 0; i-- {
		s.Steps = append(s.Steps, Step{Op: "skipable", A: r.Intn(ncol + 1), B: r.Intn(3)})
	}
	// routes: every format at least once, text under several decorations
	nr := r.Range(6, 10)
	huge := s.Config["huge_cell"] == 1
	if tall {
		nr = 3
	}
	if huge {
		nr = 3 // only the renderers that write field by field: the others make thousands of writes for such a cell
	}
	for i := 0; i < nr; i++ {
		f := i % NFormats
		if i >= NFormats {
			f = []int{FmtText, FmtText, FmtMD, FmtHTML, FmtJSON, FmtCSV}[r.Intn(6)]
		}
		if huge {
			f = []int{FmtJSON, FmtCSV, FmtText}[i]
		}
		if tall && !huge {
			f = []int{FmtText, FmtMD, FmtCSV, FmtJSON, FmtText}[i%5]
		}
		st := Step{Op: "render", A: f, B: []int{0, 1, 2, 3, 4, 5, 6, 8, 9}[r.Intn(9)], C: []int{ViaPkg, ViaFresh, ViaFresh, ViaAuto, ViaReused, ViaAutoFn}[r.Intn(6)], D: r.Intn(16) | r.Pick([]int{4, 1, 1, 1, 1, 1, 1})<<4, E: r.Range(1, 99)}
		if huge && f == FmtText {
			st.C = ViaReused
		}
		if tall {
			// one wrapper for all faults of the route: every texttable/markdown Wrap
			// registers one more measuring callback on the table, which over
			// hundreds of faulted renders of a tall table would be quadratic
			st.C = ViaReused
		}
		s.Steps = append(s.Steps, st)
	}
}

func newSimWriter(flags int, y Yielder) (io.Writer, *SimWriter) {
	if flags&4 != 0 {
		sw := &SimStringWriter{}
		sw.Y = y
		return sw, &sw.SimWriter
	}
	sw := &SimWriter{Y: y}
	return sw, sw
}

func (engC15) Exec(s *Script, keepLog bool) (guarded *Result) {
	defer guardExec("C15", &guarded)
	w := NewWorld(s.Cfg("kind", 0), "utf8-light", nil, NewEventLog(keepLog))
	res := &Result{}
	routes := newHasher()
	evals := 0
	runSteps(w, s.Steps, res, func(i int, st *Step) *Violation {
		if st.Op != "render" {
			if !w.Do(st) {
				w.doColumnSetting(st)
			}
			return nil
		}
		spec := specOf(st)
		spec.ToWriter = true
		spec.Flags = st.D & htmlFlagMask
		routes.str(spec.String())
		fname := fmtNames[spec.Format]
		// fault-free reference pass
		wr, sw := newSimWriter(st.D, nil)
		_, ferr, pi := w.Render(spec, wr)
		if pi != nil {
			res.Foreign++
			w.probe("faultfree_panic_skipped")
			return nil
		}
		ref := append([]byte(nil), sw.Accepted...)
		n := sw.Calls
		sizes := sw.Sizes
		if ferr != nil {
			w.probe("faultfree_render_errors")
		}
		modes := []int{FaultSticky, FaultOnce, FaultPartial, FaultPartialOnce}
		ks := make([]int, 0, n)
		for k := 0; k < n; k++ {
			ks = append(ks, k)
		}
		if len(st.Plan) >= 2 { // pinned fault (replay files)
			ks = []int{st.Plan[0]}
			modes = []int{st.Plan[1]}
			if st.Plan[0] < 0 {
				ks = nil // the real-file fault below
			}
		}
		if (len(st.Plan) < 2 || st.Plan[0] < 0) && len(ref) > 0 && ferr == nil {
			// One fault that no hand-written writer can deliver: the destination is a
			// real *os.File whose every write fails (/dev/full: "no space left on
			// device"; where that does not exist, a file opened read-only).  A
			// renderer that treats files specially (buffering, say) must still report it.
			f, oerr := os.OpenFile("/dev/full", os.O_WRONLY, 0)
			if oerr != nil {
				f, oerr = os.Open(os.DevNull)
			}
			if oerr == nil {
				_, err, pi := w.Render(spec, f)
				f.Close()
				evals++
				w.Faults["real_file_refusing_every_write"]++
				if pi != nil {
					res.Pin = []int{i, -1, 0}
					return &Violation{Property: "C15", Signature: "C15/panic:" + fname + ":" + pi.Frame,
						Detail: fmt.Sprintf("%s into a file that refuses every write panicked: %s", spec, pi.Value)}
				}
				if err == nil {
					res.Pin = []int{i, -1, 0}
					return &Violation{Property: "C15", Signature: "C15/nil-error:" + fname + ":real_file",
						Detail: fmt.Sprintf("%s into a *os.File that refuses every write (/dev/full) returned nil although none of the %d bytes of output was accepted", spec, len(ref))}
				}
			}
		}
		for _, k := range ks {
			for _, mode := range modes {
				wr, sw := newSimWriter(st.D, nil)
				sw.FaultAt, sw.Mode, sw.Frac = k, mode, pick(100, st.E)
				sw.Err = faultErrors[pick(len(faultErrors), st.D>>4)]
				if w.Log != nil {
					w.Log.Add(fmt.Sprintf("fault k=%d mode=%s", k, faultNames[mode]))
				}
				_, err, pi := w.Render(spec, wr)
				evals++
				if sw.Fired > 0 {
					w.Faults[faultNames[mode]]++
				}
				if sw.ZeroLen {
					w.probe("fault_on_zero_length_write")
				}
				if k == n-1 {
					w.probe("fault_on_last_write")
				}
				if k == 0 {
					w.probe("fault_on_first_write")
				}
				site := ""
				if k < len(sizes) {
					site = fmt.Sprintf(" (write #%d of %d, %d bytes)", k, n, sizes[k])
				}
				pin := func(v *Violation) *Violation {
					res.Pin = []int{i, k, mode}
					return v
				}
				if pi != nil {
					return pin(&Violation{Property: "C15", Signature: "C15/panic:" + fname + ":" + pi.Frame,
						Detail: fmt.Sprintf("%s with %s at k=%d%s panicked: %s", spec, faultNames[mode], k, site, pi.Value)})
				}
				if sw.Fired == 0 {
					// the render stopped before reaching write k: only possible if it is not repeatable
					if !sameFaultFree(w, spec, st.D, ref) {
						res.Foreign++
						w.probe("not_repeatable_skipped")
						return nil
					}
					return pin(&Violation{Property: "C15", Signature: "C15/fault-not-reached:" + fname,
						Detail: fmt.Sprintf("%s: write #%d was never attempted although the fault-free pass makes %d writes", spec, k, n)})
				}
				if !bytes.HasPrefix(ref, sw.Accepted) {
					if !sameFaultFree(w, spec, st.D, ref) {
						res.Foreign++
						w.probe("not_repeatable_skipped")
						return nil
					}
					return pin(&Violation{Property: "C15", Signature: "C15/not-prefix:" + fname + ":" + faultNames[mode],
						Detail: fmt.Sprintf("%s with %s at k=%d%s: the %d accepted bytes are not a prefix of the fault-free output (%d bytes); err=%v", spec, faultNames[mode], k, site, len(sw.Accepted), len(ref), err)})
				}
				if err == nil {
					return pin(&Violation{Property: "C15", Signature: "C15/nil-error:" + fname + ":" + faultNames[mode],
						Detail: fmt.Sprintf("%s with %s at k=%d%s: RenderTo returned nil although the writer failed", spec, faultNames[mode], k, site)})
				}
				if mode == FaultSticky && sw.Fired > 1 {
					w.probe("kept_writing_after_error")
				}
			}
		}
		return nil
	}, func(i int, st *Step, pi *PanicInfo) *Violation {
		return nil
	})
	res.NonTrivial = w.headerSet && len(w.rows) > 0
	res.Evals = evals
	res.State = w.StateHash() ^ routes.h
	return finish(w, res)
}

// sameFaultFree renders once more without a fault, through a FRESH wrapper: if
// that reproduces the reference output the table itself is repeatable, and a
// deviation seen on a reused wrapper after an injected fault is C15's own.
func sameFaultFree(w *World, spec RenderSpec, flags int, ref []byte) bool {
	if spec.Via == ViaReused {
		spec.Via = ViaFresh
	}
	wr, sw := newSimWriter(flags, nil)
	_, _, pi := w.Render(spec, wr)
	return pi == nil && bytes.Equal(sw.Accepted, ref)
}

// Pin rewrites the failing render step so that the replay file names the one
// fault (write index, mode) that exposes the violation.
func (engC15) Pin(s *Script, res *Result) *Script {
	if len(res.Pin) != 3 || res.Pin[0] >= len(s.Steps) {
		return nil
	}
	c := s.Clone()
	c.Steps[res.Pin[0]].Plan = []int{res.Pin[1], res.Pin[2]}
	c.Steps = c.Steps[:res.Pin[0]+1]
	return c
}

func alignKey() interface{} { return align.PropertyType }
func skipKey() interface{}  { return properties.Skipable }
