package sim

import (
	"fmt"
	"strings"

	"go.pennock.tech/tabular"

	"go.pennock.tech/tabular/auto"
	"go.pennock.tech/tabular/texttable/decoration"
)

// genSchedule draws scheduler choices: mostly "keep running" (0), with a
// per-run switch probability, and bursts of switches.
func genSchedule(r *Rng, n int, ntasks int) []int {
	if ntasks <= 1 {
		return nil
	}
	pct := []int{3, 10, 25, 50, 80}[r.Intn(5)]
	out := make([]int, n)
	for i := range out {
		if r.Intn(100) < pct {
			out[i] = 1 + r.Intn(ntasks)
		}
	}
	return out
}

// ---------------------------------------------------------------------------
// C17

type engC17 struct{}

func init() { Register(engC17{}) }

func (engC17) ID() string    { return "C17" }
func (engC17) Level() string { return "exploration" }
func (engC17) Runs(tier string) int {
	if tier == "thorough" {
		return 300000 // (about 27 minutes on 16 workers, measured: every run is dozens of goroutine hand-offs)
	}
	return 16000
}
func (engC17) RaceRuns(tier string) int {
	if tier == "thorough" {
		return 40000
	}
	return 600
}
func (engC17) ProcessStateful() bool { return true }
func (engC17) Rule() string {
	return "each run has 1-5 simulated caller tasks (1 = a sequential history) issuing 3-12 registry operations each: RegisterDecorationName(pool name, one of 20 recognisable decorations; overwrites included), Named(pool / built-in / never-registered name), RegisteredDecorationNames(), and SetDecorationNamed(name)+Render. Tasks are real goroutines parked at the verif-tag yield hook before every registry lock and after every unlock; a seeded schedule decides which one proceeds, so operations genuinely overlap in simulated time. Invoke/return of every operation is stamped with the global event sequence number and the recorded history is checked against the statement (registered-value, fail-closed, latest-after-quiescence, sorted/duplicate-free/complete listing). After the tasks finish a final lookup of every pool name and a final listing are appended to the history. A second prong runs the same task scripts as truly parallel goroutines under the Go race detector (see x_race_* keys). Non-trivial = at least two tasks and one registration; distinct = distinct interleavings (hash of the (task, park site) sequence) x scripts."
}
func (engC17) Annotate(cov map[string]interface{}) {
	cov["distinct_measure"] = "distinct_nontrivial counts distinct interleavings: hash of the (task, park site) sequence chosen by the scheduler, xor the script hash"
}
func (engC17) Assumptions() []string {
	return []string{
		"exactly the statement, no stronger: during concurrent registration of a name any value registered under it (invoked before the lookup returned) is accepted; the latest is only demanded once every registration of that name completed before the lookup was invoked",
		"names are prefixed with the run seed so runs sharing a process never collide; names left by other runs are ignored except for sortedness/duplicates",
		"the serialised prong cannot see data races by construction (hand-off creates happens-before); the race prong decides that clause",
	}
}

func genRegStep(r *Rng, npool int) Step {
	switch r.Pick([]int{5, 5, 2, 2}) {
	case 0:
		st := Step{Op: "reg", A: r.Intn(npool), B: r.Intn(20)}
		if r.Chance(1, 12) {
			st.D = 1 // the empty decoration
		}
		return st
	case 1:
		return Step{Op: "named", A: r.Intn(npool + 6 + 10)}
	case 2:
		return Step{Op: "names"}
	}
	return Step{Op: "setdeco", A: r.Intn(npool + 6 + 10), B: r.Intn(4)}
}

func (engC17) Gen(r *Rng, s *Script, idx int, tier string) {
	nt := r.Pick([]int{2, 4, 4, 3, 2}) + 1
	npool := r.Range(1, 6)
	s.Config["tasks"] = nt
	s.Config["pool"] = npool
	s.Config["rot"] = r.Intn(len(poolShapes))
	if r.Chance(1, 4) {
		s.Config["overwrite_builtin"] = 1 // pool index npool is then a built-in name
	} else if r.Chance(1, 8) {
		s.Config["empty_name"] = 1 // pool index npool is then the empty string
	}
	shared := s.Config["overwrite_builtin"] == 1 || s.Config["empty_name"] == 1
	total := 0
	for t := 0; t < nt; t++ {
		n := r.Range(3, 12)
		var steps []Step
		for i := 0; i < n; i++ {
			st := genRegStep(r, npool)
			if shared && r.Chance(1, 4) && (st.Op == "reg" || st.Op == "named" || st.Op == "setdeco") {
				st.A = npool
			}
			steps = append(steps, st)
		}
		s.Tasks = append(s.Tasks, steps)
		total += n
	}
	s.Schedule = genSchedule(r, total*3, nt)
}

func runRegTasks(s *Script, keepLog bool, probe func(rr *RegRun, task int, st *Step, log *EventLog) *Violation) (*RegRun, *Sched, *EventLog, *Violation) {
	installHooks()
	log := NewEventLog(keepLog)
	rr := NewRegRun(s.Seed, s.Cfg("pool", 3), RegOpts{OverwriteBuiltin: s.Cfg("overwrite_builtin", 0) == 1, EmptyName: s.Cfg("empty_name", 0) == 1, Rot: s.Cfg("rot", 0)})
	sc := NewSched(s.Schedule, log)
	var firstV *Violation
	for t := range s.Tasks {
		tt := t
		steps := s.Tasks[t]
		sc.Go(func(y Yielder) {
			for i := range steps {
				st := &steps[i]
				if st.Op == "probe" && probe != nil {
					if v := probe(rr, tt, st, log); v != nil && firstV == nil {
						firstV = v
					}
					continue
				}
				rr.DoReg(tt, st, log)
			}
		})
	}
	sc.Run()
	return rr, sc, log, firstV
}

func (engC17) Exec(s *Script, keepLog bool) (guarded *Result) {
	defer guardExec("C17", &guarded)
	rr, sc, log, _ := runRegTasks(s, keepLog, nil)
	defer rr.Close()
	res := &Result{Probes: rr.Probes, Faults: map[string]int{}}
	// finale: registrations have finished
	for i := range rr.pool {
		rr.DoReg(-1, &Step{Op: "named", A: i}, log)
		rr.DoReg(-1, &Step{Op: "setdeco", A: i, B: i % 4}, log)
	}
	rr.DoReg(-1, &Step{Op: "names"}, log)
	if len(sc.Panics) > 0 {
		res.Violation = &Violation{Property: "C17", Signature: "C17/panic:" + panicFrame(sc.Panics[0]), Detail: sc.Panics[0]}
	} else {
		res.Violation = rr.CheckC17()
	}
	nreg := 0
	overlaps := 0
	for i, o := range rr.hist {
		if o.kind == "reg" {
			nreg++
		}
		for _, p := range rr.hist[:i] {
			if p.task != o.task && p.ret > o.inv && p.inv < o.ret {
				overlaps++
			}
		}
	}
	res.Probes["ops_overlapping_in_simulated_time"] = overlaps
	res.Probes["context_switches"] = sc.Switches
	res.Probes["yields"] = sc.Yields
	for k, v := range sc.Sites {
		res.Probes[k] = v
	}
	res.NonTrivial = len(s.Tasks) >= 2 && nreg > 0
	res.State = sc.TraceHash() ^ hashString(string(s.JSON()))
	res.LogHash = log.Hash()
	res.Events = log.Seq + rr.seq
	res.Steps = len(rr.hist)
	res.Log = log.Lines
	return res
}

func panicFrame(s string) string {
	parts := strings.SplitN(s, ": ", 3)
	if len(parts) >= 2 {
		return parts[1]
	}
	return "?"
}

// ---------------------------------------------------------------------------
// C19

type engC19 struct{}

func init() { Register(engC19{}) }

func (engC19) ID() string    { return "C19" }
func (engC19) Level() string { return "exploration" }
func (engC19) Runs(tier string) int {
	if tier == "thorough" {
		return 400000
	}
	return 2400
}
func (engC19) ProcessStateful() bool { return true }
func (engC19) Rule() string {
	return "each run is a registration history over a per-run pool of up to 6 application-style names (plain, mixed case with a space, non-ASCII, containing a dot, containing control characters and invalid UTF-8, longer than 64 bytes) with overwrites, interleaved with probe steps; two thirds of the runs are sequential histories, one third have a second task registering concurrently under the scheduler while the first probes. At every probe, in the registry state reached: ListStyles() is sorted and contains the four sub-packages, the six built-ins and every registered name (and, when nothing is in flight, no unregistered pool name); every listed name of this run constructs with auto.New and renders without error, with the registered decoration's glyphs; each sub-package name in 4 case variants, alone and with a seeded trailing section, yields that renderer and identical output; NAME and texttable.NAME yield identical text-table output, equal to texttable with SetDecorationNamed(NAME); texttable (any case) renders like the default; unknown names ('', unknown, texttable.unknown, 'csvx', 'x.csv', 'texttablex', 'TextTable2', trailing sections with a newline or NUL) yield an error and no text. The style-grammar clauses are plain enumeration inside each reached state (said so in DESIGN.md section 3.10). Non-trivial = at least one probe after at least one registration; distinct = distinct (history, interleaving) hashes."
}
func (engC19) Assumptions() []string {
	return []string{
		"pool names never equal a sub-package name (the statement is silent about such duplicates)",
		"decoration names are not required to be case-insensitive, and trailing sections after a decoration name are not exercised (the statement gives both only for sub-package names)",
		"a probe that overlaps registrations in simulated time checks the listing for containment only",
	}
}

func (engC19) Gen(r *Rng, s *Script, idx int, tier string) {
	npool := r.Range(1, 6)
	s.Config["pool"] = npool
	s.Config["rot"] = r.Intn(len(poolShapes))
	n := r.Range(2, 9)
	var steps []Step
	for i := 0; i < n; i++ {
		if r.Chance(1, 3) {
			steps = append(steps, Step{Op: "probe", A: r.Intn(64)})
		} else {
			st := Step{Op: "reg", A: r.Intn(npool), B: r.Intn(20)}
			if r.Chance(1, 10) {
				st.C = 1
			} else if r.Chance(1, 10) {
				st.C = 2
			}
			steps = append(steps, st)
		}
	}
	steps = append(steps, Step{Op: "probe", A: r.Intn(64)})
	s.Tasks = [][]Step{steps}
	if r.Chance(1, 3) {
		var other []Step
		for i := r.Range(2, 8); i > 0; i-- {
			other = append(other, Step{Op: "reg", A: r.Intn(npool), B: r.Intn(20)})
		}
		s.Tasks = append(s.Tasks, other)
		s.Schedule = genSchedule(r, 120, 2)
	}
	s.Config["tasks"] = len(s.Tasks)
}

func (engC19) Exec(s *Script, keepLog bool) (guarded *Result) {
	defer guardExec("C19", &guarded)
	concurrent := len(s.Tasks) > 1
	probes := 0
	rr, sc, log, v := runRegTasks(s, keepLog, func(rr *RegRun, task int, st *Step, log *EventLog) *Violation {
		// what is registered right now, by completed registrations
		reg := map[string]int{}
		inflight := false
		for _, o := range rr.hist {
			if o.kind != "reg" {
				continue
			}
			if o.ret > 0 {
				reg[o.name] = o.variant
			} else {
				inflight = true
			}
		}
		if concurrent {
			inflight = true // the other task may start a registration while we probe
		}
		probes++
		if log != nil {
			log.Add(fmt.Sprintf("t%d probe registered=%d inflight=%v", task, len(reg), inflight))
		}
		return rr.ProbeC19(reg, inflight, st.A)
	})
	defer rr.Close()
	res := &Result{Probes: rr.Probes, Faults: map[string]int{}}
	if len(sc.Panics) > 0 {
		res.Violation = &Violation{Property: "C19", Signature: "C19/panic:" + panicFrame(sc.Panics[0]), Detail: sc.Panics[0]}
	} else {
		res.Violation = v
	}
	nreg := 0
	for _, o := range rr.hist {
		if o.kind == "reg" {
			nreg++
		}
	}
	res.Probes["context_switches"] = sc.Switches
	res.NonTrivial = probes > 0 && nreg > 0
	res.State = sc.TraceHash() ^ hashString(string(s.JSON()))
	res.LogHash = log.Hash()
	res.Events = log.Seq + rr.seq
	res.Steps = len(rr.hist) + probes
	res.Log = log.Lines
	return res
}

// ---------------------------------------------------------------------------
// C16

type engC16 struct{}

func init() { Register(engC16{}) }

func (engC16) ID() string    { return "C16" }
func (engC16) Level() string { return "exploration" }
func (engC16) Runs(tier string) int {
	if tier == "thorough" {
		return 1000000 // (what 16 workers finish within the 45-minute budget, with room to spare)
	}
	return 5000
}
func (engC16) RaceRuns(tier string) int {
	if tier == "thorough" {
		return 20000
	}
	return 480
}
func (engC16) ProcessStateful() bool { return true }
func (engC16) Rule() string {
	return "each run has 2-4 simulated caller tasks that each own a table and its wrappers: a seeded build script (SimItems, properties, logging callbacks; often a shared template: one cell value carrying nine callbacks, one []error of 11+ entries, one list of items, copied into every task and extended there) followed by 2-6 renders over all formats, decorations and routes (Render(), RenderTo(SimWriter), auto), plus optionally one task that keeps reading the decoration registry and auto.ListStyles() and registers names nobody renders with. Prong A: the tasks are real goroutines parked at every seam crossing (each Write, each callback invocation, each item method call, each row-class call, each registry lock boundary) and a seeded schedule decides who proceeds; every output and the final table snapshot of every task must equal what the same task script produces when executed alone. Prong B: the same task scripts run as truly parallel goroutines with no scheduler under the Go race detector (x_race_* keys). Non-trivial = at least two table-owning tasks rendered and at least one context switch happened inside a render; distinct = distinct interleavings (hash of the (task, park site) sequence) x scripts."
}
func (engC16) Annotate(cov map[string]interface{}) {
	cov["distinct_measure"] = "distinct_nontrivial counts distinct interleavings: hash of the (task, park site) sequence chosen by the scheduler, xor the script hash"
}
func (engC16) Assumptions() []string {
	return []string{
		"tasks share nothing but the process: no table, wrapper, item or callback object is used by two tasks (that is the statement's premise)",
		"prong A interleaves only at seam crossings and the registry hook; code between two crossings runs atomically there, which is why the race prong exists",
		"the race prong is dynamic happens-before analysis of executions whose physical interleaving is not controlled; its replay re-executes the minimised script under -race up to 20 times",
	}
}

func (engC16) Gen(r *Rng, s *Script, idx int, tier string) {
	nt := r.Range(2, 4)
	s.Config["tasks"] = nt
	s.Config["pool"] = 4
	total := 0
	focus := -1
	if r.Chance(2, 3) {
		focus = r.Intn(NFormats) // tasks rendering the same format at once is where shared state would show
	}
	errW := 0
	if r.Chance(1, 2) {
		errW = 3
	}
	shareErrs := -1
	if r.Chance(1, 3) {
		shareErrs = r.Intn(2)
		s.Config["shared_error_list"] = 1 + shareErrs
	}
	for t := 0; t < nt; t++ {
		var steps []Step
		ctr := t * 1000
		m := drawBuildMix(r)
		m.scramble = 0
		level := 2
		steps = append(steps, Step{Op: "new", A: r.Intn(7)})
		if r.Chance(3, 4) {
			steps = append(steps, Step{Op: "headers", Items: genItems(r, r.Range(1, 4), 2, &ctr)})
		}
		if r.Chance(1, 25) {
			// a tall table (a library might treat big tables differently)
			steps = append(steps, Step{Op: "bulkRows", A: r.Range(96, 130), B: r.Range(1, 3)})
			s.Config["tall_table"] = 1
		}
		if r.Chance(1, 3) {
			// renderer settings on columns, often only the all-columns default
			steps = append(steps, Step{Op: "align", A: r.Pick([]int{3, 1, 1}), B: 1 + r.Intn(3)})
		}
		if r.Chance(1, 3) {
			// copies of one prepared cell value (with properties) go into several tables
			steps = append(steps, Step{Op: "rowItems", Items: genItems(r, 1, 1, &ctr)}, Step{Op: "addTemplate", A: 0, B: r.Intn(4)})
		}
		if shareErrs >= 0 {
			// the same prepared []error is handed to every table
			steps = append(steps, Step{Op: "addTemplateErrs", A: shareErrs})
		}
		if r.Chance(2, 3) {
			// values that independent tables typically have in common
			var common []Item
			for i := r.Range(1, 4); i > 0; i-- {
				common = append(common, commonItems[r.Intn(len(commonItems))])
			}
			steps = append(steps, Step{Op: "rowItems", Items: common})
		}
		for i := r.Range(1, 6); i > 0; i-- {
			switch r.Pick([]int{8, 2, 3, errW}) {
			case 0:
				steps = append(steps, genBuildStep(r, m, level, &ctr))
			case 1:
				steps = append(steps, Step{Op: "setProp", A: r.Intn(12), C: r.Intn(14), D: 1})
			case 2:
				steps = append(steps, genRegister(r, errW > 0 && r.Chance(1, 2), false))
			default:
				// each table collects its own errors (and only its own)
				if r.Chance(1, 2) {
					steps = append(steps, Step{Op: "tableError"})
				} else {
					steps = append(steps, Step{Op: "rowError", A: r.Intn(3)})
				}
			}
		}
		if r.Chance(1, 4) {
			// a render that fails (unknown decoration) before the others: whatever a
			// failed render leaves behind in the process must not reach other tables
			steps = append(steps, Step{Op: "render", A: FmtText, B: 7, C: ViaFresh})
		}
		for i := r.Range(2, 6); i > 0; i-- {
			st := genRenderStep(r, 0)
			if focus >= 0 && r.Chance(2, 3) {
				st.A = focus
			}
			if r.Chance(1, 4) {
				st.C = ViaReused
			}
			steps = append(steps, st)
		}
		if r.Chance(1, 3) {
			// the owner goes on building after its renders (some of which may have been
			// aborted by a writer fault) and renders once more: nothing a render left
			// running may still be looking at the table
			for i := r.Range(1, 3); i > 0; i-- {
				steps = append(steps, genBuildStep(r, m, level, &ctr))
			}
			steps = append(steps, genRenderStep(r, 0))
			s.Config["build_after_render"] = 1
		}
		s.Tasks = append(s.Tasks, steps)
		total += len(steps) * 12
	}
	for nreg := r.Pick([]int{3, 4, 2}); nreg > 0; nreg-- {
		var steps []Step
		for i := r.Range(3, 10); i > 0; i-- {
			switch r.Intn(4) {
			case 0:
				steps = append(steps, Step{Op: "reg", A: r.Intn(4), B: r.Intn(20)})
			case 1:
				steps = append(steps, Step{Op: "named", A: r.Intn(11)})
			case 2:
				steps = append(steps, Step{Op: "names"})
			default:
				steps = append(steps, Step{Op: "styles"})
			}
		}
		s.Tasks = append(s.Tasks, steps)
		s.Config["registry_task"] = 1
		total += len(steps) * 3
	}
	if total > 400 {
		total = 400
	}
	s.Schedule = genSchedule(r, total, len(s.Tasks))
}

var commonItems = []Item{{K: "i", N: 0}, {K: "i", N: 1}, {K: "i", N: 7}, {K: "i", N: 42}, {K: "b", N: 1}, {K: "b"}, {K: "n"}, {K: "s", S: ""}, {K: "s", S: "x"}, {K: "f", N: 2}, {K: "s", S: "a\"b"}}

// taskResult is what one table-owning task produced.
type taskResult struct {
	outs  []string
	errs  []bool
	snap  []string
	panic string
}

func isRegistryTask(steps []Step) bool {
	for _, st := range steps {
		switch st.Op {
		case "reg", "named", "names", "styles":
			return true
		}
	}
	return false
}

// runTableTask executes one task script in its own World.
func runTableTask(steps []Step, y Yielder, log *EventLog, tr *taskResult, errs [][]error, tmpl ...*tabular.Cell) {
	kind := 0
	if len(steps) > 0 && steps[0].Op == "new" {
		kind = pick(7, steps[0].A)
	}
	w := NewWorld(kind, "utf8-light", y, log)
	if len(tmpl) > 0 {
		w.Template = tmpl[0]
	}
	w.TemplateErrs = errs
	for i := range steps {
		st := &steps[i]
		switch st.Op {
		case "new":
		case "render":
			ro := w.ApplyRender(st)
			if ro.Panic != nil {
				tr.panic = ro.Panic.Frame + ": " + ro.Panic.Value
				return
			}
			tr.outs = append(tr.outs, ro.Out)
			tr.errs = append(tr.errs, ro.Err != nil)
		default:
			w.Apply(st)
		}
	}
	tr.snap = w.Snapshot()
}

func runRegistryTask(rr *RegRun, task int, steps []Step, log *EventLog) {
	for i := range steps {
		st := &steps[i]
		if st.Op == "styles" {
			auto.ListStyles()
			continue
		}
		rr.DoReg(task, st, log)
	}
}

func (engC16) Exec(s *Script, keepLog bool) (guarded *Result) {
	defer guardExec("C16", &guarded)
	installHooks()
	log := NewEventLog(keepLog)
	res := &Result{Probes: map[string]int{}, Faults: map[string]int{}}
	tmpl := NewTemplateCell()
	// solo executions: each task alone, no scheduler
	solo := make([]*taskResult, len(s.Tasks))
	for t, steps := range s.Tasks {
		if isRegistryTask(steps) {
			continue
		}
		solo[t] = &taskResult{}
		func() {
			defer func() {
				if r := recover(); r != nil {
					solo[t].panic = fmt.Sprint(r)
				}
			}()
			runTableTask(cloneSteps(steps), nil, nil, solo[t], NewTemplateErrs(), tmpl)
		}()
		if solo[t].panic != "" {
			// a panic with no concurrency involved belongs to C02/C09
			res.Foreign++
			res.LogHash = log.Hash()
			return res
		}
	}
	// concurrent execution under the scheduler
	rr := NewRegRun(s.Seed, 4, RegOpts{})
	sc := NewSched(s.Schedule, log)
	conc := make([]*taskResult, len(s.Tasks))
	sharedErrs := NewTemplateErrs() // the same slices for every task
	for t := range s.Tasks {
		tt := t
		steps := cloneSteps(s.Tasks[t])
		if isRegistryTask(steps) {
			sc.Go(func(y Yielder) { runRegistryTask(rr, tt, steps, log) })
			continue
		}
		conc[t] = &taskResult{}
		sc.Go(func(y Yielder) { runTableTask(steps, y, log, conc[tt], sharedErrs, tmpl) })
	}
	sc.Run()
	nTables := 0
	for t := range s.Tasks {
		if solo[t] == nil {
			continue
		}
		nTables++
		a, b := solo[t], conc[t]
		if b.panic != "" && res.Violation == nil {
			res.Violation = &Violation{Property: "C16", Signature: "C16/panic-only-when-concurrent:" + strings.SplitN(b.panic, ": ", 2)[0], Detail: fmt.Sprintf("task %d panicked under interleaving but not alone: %s", t, b.panic)}
			continue
		}
		for i := range a.outs {
			if res.Violation != nil {
				break
			}
			if i >= len(b.outs) {
				res.Violation = &Violation{Property: "C16", Signature: "C16/render-missing", Detail: fmt.Sprintf("task %d made %d renders alone but %d when interleaved", t, len(a.outs), len(b.outs))}
				break
			}
			if a.outs[i] != b.outs[i] || a.errs[i] != b.errs[i] {
				f := renderFormatOf(s.Tasks[t], i)
				res.Violation = &Violation{Property: "C16", Signature: "C16/output-differs-from-solo:" + f, Detail: fmt.Sprintf("task %d render #%d (%s): %s (error alone=%v interleaved=%v)", t, i, f, firstDiff(a.outs[i], b.outs[i]), a.errs[i], b.errs[i])}
			}
		}
		if res.Violation == nil {
			if d := diffSnap(a.snap, b.snap); d != "" {
				res.Violation = &Violation{Property: "C16", Signature: "C16/state-differs-from-solo", Detail: fmt.Sprintf("task %d: %s", t, d)}
			}
		}
	}
	if len(sc.Cross) > 0 {
		res.Violation = &Violation{Property: "C16", Signature: "C16/cross-task-invocation", Detail: sc.Cross[0] + " (an object owned by one caller's table was used while another caller's table was being processed)"}
	}
	if len(sc.Panics) > 0 && res.Violation == nil {
		res.Violation = &Violation{Property: "C16", Signature: "C16/panic:" + panicFrame(sc.Panics[0]), Detail: sc.Panics[0]}
	}
	inRender := 0
	for k, v := range sc.Sites {
		res.Probes[k] = v
		if k == "preempted_at_write" || strings.HasPrefix(k, "preempted_at_item") || k == "preempted_at_callback" || k == "preempted_at_rowclass" {
			inRender += v
		}
	}
	res.Probes["context_switches"] = sc.Switches
	res.Probes["yields"] = sc.Yields
	res.Probes["preempted_inside_render_or_build"] = inRender
	res.NonTrivial = nTables >= 2 && inRender > 0
	res.State = sc.TraceHash() ^ hashString(string(s.JSON()))
	res.LogHash = log.Hash()
	res.Events = log.Seq
	res.Steps = s.NSteps()
	res.Log = log.Lines
	return res
}

func renderFormatOf(steps []Step, n int) string {
	k := 0
	for i := range steps {
		if steps[i].Op == "render" {
			if k == n {
				return fmtNames[pick(NFormats, steps[i].A)]
			}
			k++
		}
	}
	return "?"
}

var _ = decoration.EmptyDecoration
