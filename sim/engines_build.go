package sim

import (
	"fmt"
)

// runSteps executes steps one by one under recover.  after is called after
// every step that did not panic; a non-nil violation stops the run.
// onPanic decides what a panic inside a step means for this engine.
func runSteps(w *World, steps []Step, res *Result,
	do func(i int, st *Step) *Violation,
	onPanic func(i int, st *Step, pi *PanicInfo) *Violation) {
	for i := range steps {
		st := &steps[i]
		var pi *PanicInfo
		var v *Violation
		func() {
			defer func() {
				if r := recover(); r != nil {
					pi = capturePanic(r)
				}
			}()
			if w.Log != nil {
				w.Log.Add("step " + st.Op)
			}
			v = do(i, st)
		}()
		res.Steps++
		if pi != nil {
			v = onPanic(i, st, pi)
			if v == nil {
				res.Foreign++
				return
			}
		}
		if v == stopRun {
			res.Foreign++
			return
		}
		if v != nil {
			v.Step = i
			res.Violation = v
			return
		}
	}
}

// stopRun is returned by a step function to cut the run because of a panic
// that belongs to another property.
var stopRun = &Violation{Signature: "stop"}

func finish(w *World, res *Result) *Result {
	res.Probes = w.Probes
	res.Faults = w.Faults
	res.LogHash = w.Log.Hash()
	res.Events = w.Log.Seq
	res.Log = w.Log.Lines
	if res.State == 0 {
		res.State = w.StateHash()
	}
	return res
}

// ---------------------------------------------------------------------------
// C02

type engC02 struct{}

func init() { Register(engC02{}) }

func (engC02) ID() string    { return "C02" }
func (engC02) Level() string { return "exploration" }
func (engC02) Runs(tier string) int {
	if tier == "thorough" {
		return 30000000
	}
	return 60000
}
func (engC02) Rule() string {
	return "run i < " + fmt.Sprint(enumCount(len(enumAlphabet()), 4)) + " (thorough tier: " + fmt.Sprint(enumCount(len(enumAlphabet()), 5)) + ") is the i-th build script of length <=4 (thorough: <=5) over a 13-letter reduced alphabet (complete enumeration); later runs are seeded swarm scripts of 0-14 (thorough: up to 40) building steps (AddHeaders, AddRowItems, NewRow*/Row.Add/AddRow, AppendNewRow + late Row.Add, AddSeparator, Row.Add on a separator, scrambling AllRows(); in a quarter of the runs also renders of any format, some aborted by a writer fault, after which the structure must still follow the build history) with 0-5 (sometimes 9-13, in scale scenarios 255-300) cells. After every step the table is compared with the reference model. A run is non-trivial if it attached at least one row; distinct = distinct model shapes (sequence of row widths/separators, header width, detached count)."
}
func (engC02) Assumptions() []string {
	return []string{
		"a *Row is attached at most once and never to two tables; AddRow(nil) is not generated (the statement does not define them)",
		"when AddHeaders is called again with fewer items, any NColumns between the current widest and the widest ever is accepted",
		"cell identity is the identity of the stored item (scripted items are unique except blank ones: nil and the empty string); the text form of items is C01's business",
		"liveness of a looked-up cell is behavioural: two consecutive CellAt give the same object and a property written through it is read back through AllRows()[r-1].Cells()[c-1] (which may be a copy)",
	}
}

func (engC02) Gen(r *Rng, s *Script, idx int, tier string) {
	alpha := enumAlphabet()
	depth := 4
	if tier == "thorough" {
		depth = 5
	}
	nEnum := enumCount(len(alpha), depth)
	s.Config["kind"] = 0
	if idx < nEnum {
		s.Config["enum"] = 1
		s.Steps = enumDecode(alpha, depth, idx)
		return
	}
	s.Config["kind"] = r.Intn(7)
	m := drawBuildMix(r)
	n := r.Range(0, 14)
	if tier == "thorough" && r.Chance(1, 3) {
		n = r.Range(10, 40)
	}
	s.Config["steps"] = n
	ctr := 0
	if r.Chance(1, 60) {
		// a row wider than a byte can count
		wide := make([]Item, []int{255, 256, 257, 300}[r.Intn(4)])
		for i := range wide {
			ctr++
			wide[i] = Item{K: "i", N: 9000 + ctr}
		}
		s.Config["wide_row"] = len(wide)
		s.Steps = append(s.Steps, Step{Op: "rowItems", Items: wide})
		n = r.Range(0, 4)
	}
	renders := r.Chance(1, 4) // structure must also survive whatever a renderer does
	for i := 0; i < n; i++ {
		if renders && r.Chance(1, 5) {
			s.Steps = append(s.Steps, genRenderStep(r, 10))
			continue
		}
		if r.Chance(1, 25) {
			// the caller re-reads a cell's item: the cell keeps its place
			s.Steps = append(s.Steps, Step{Op: "updateCell", A: r.Intn(4)})
			continue
		}
		s.Steps = append(s.Steps, genBuildStep(r, m, -1, &ctr)) // level -1: unique items plus blank ones (nil, "")
	}
}

func (engC02) Exec(s *Script, keepLog bool) (guarded *Result) {
	defer guardExec("C02", &guarded)
	w := NewWorld(s.Cfg("kind", 0), "utf8-light", nil, NewEventLog(keepLog))
	res := &Result{}
	if v := w.CheckC02("new"); v != nil {
		res.Violation = v
		return finish(w, res)
	}
	runSteps(w, s.Steps, res, func(i int, st *Step) *Violation {
		if st.Op == "render" {
			if ro := w.ApplyRender(st); ro.Panic != nil {
				return stopRun // C09's
			}
			w.probe("render_inside_build_history")
			return w.CheckC02("render")
		}
		w.beginStep()
		if !w.Do(st) && !(st.Op == "updateCell" && w.DoProp(st)) {
			return nil
		}
		return w.CheckC02(st.Op)
	}, func(i int, st *Step, pi *PanicInfo) *Violation {
		return &Violation{Property: "C02", Signature: "C02/panic@" + st.Op + ":" + pi.Frame, Detail: "panic: " + pi.Value}
	})
	res.NonTrivial = len(w.rows) > 0
	return finish(w, res)
}

// ---------------------------------------------------------------------------
// C09

type engC09 struct{}

func init() { Register(engC09{}) }

func (engC09) ID() string    { return "C09" }
func (engC09) Level() string { return "exploration" }
func (engC09) Runs(tier string) int {
	if tier == "thorough" {
		return 1500000
	}
	return 12000
}
func (engC09) Rule() string {
	return "run i < " + fmt.Sprint(enumCount(len(enumAlphabet()), 3)) + " (thorough tier: " + fmt.Sprint(enumCount(len(enumAlphabet()), 4)) + ", length <=4) is the i-th build script of length <=3 over the 13-letter reduced alphabet (complete enumeration); later runs are seeded swarm build scripts of 0-12 steps over text-like items (strings incl. empty/multi-line/wide/markup, ints, bools, nil, floats, and SimItems whose declared Height/TerminalCellWidth disagree with their text, incl. zero and negative, items whose text is exactly 31-33, 63-66, 127-130 or 255-257 cells wide, and JSON-marshalling items incl. failing ones). Each script ends with one explicit render step per renderer route (package function, fresh wrapper, auto) x every built-in decoration + a Populate()d custom one; every render runs under recover(). Non-trivial = at least one row or header; distinct = distinct model shapes."
}
func (engC09) Assumptions() []string {
	return []string{
		"declared sizes are bounded (height <= 4, width <= 12): an item declaring a size of billions exhausts memory in any renderer and is not what the statement is about",
		"only valid renderer settings are put on columns (left/right/centre alignment, boolean skipable); a non-Alignment value under the alignment key is caller misuse outside the statement",
		"a panic inside a building call is C02's finding; such runs are cut and counted as foreign",
	}
}

func renderStepsAll() []Step {
	var out []Step
	for _, sp := range AllRenderSpecs() {
		out = append(out, Step{Op: "render", A: sp.Format, B: sp.Deco, C: sp.Via, D: sp.Flags})
	}
	return out
}

func specOf(st *Step) RenderSpec {
	return RenderSpec{Format: pick(NFormats, st.A), Deco: pick(NDecoChoices, st.B), Via: pick(NVia, st.C), Flags: st.D & htmlFlagMask, ToWriter: st.E&1 != 0}
}

func (engC09) Gen(r *Rng, s *Script, idx int, tier string) {
	alpha := enumAlphabet()
	depth := 3
	if tier == "thorough" {
		depth = 4
	}
	nEnum := enumCount(len(alpha), depth)
	s.Config["kind"] = 0
	if idx < nEnum {
		s.Config["enum"] = 1
		s.Steps = enumDecode(alpha, depth, idx)
	} else {
		s.Config["kind"] = r.Intn(7)
		m := drawBuildMix(r)
		n := r.Range(0, 12)
		if tier == "thorough" && r.Chance(1, 3) {
			n = r.Range(8, 30)
		}
		level := 1 + r.Intn(2)
		s.Config["steps"] = n
		s.Config["itemlevel"] = level
		ctr := 0
		if r.Chance(1, 150) {
			// a ladder: one column holding a text of every width from 0 to W, so that
			// every amount of padding from 0 to W is asked for in one render (under
			// left, right and centre alignment in turn)
			top := r.Range(130, 330)
			s.Config["padding_ladder"] = top
			for wd := top; wd >= 0; wd-- {
				s.Steps = append(s.Steps, Step{Op: "rowItems", Items: []Item{{K: "x", S: "w", N: wd}}})
			}
			s.Steps = append(s.Steps, Step{Op: "align", A: 1, B: r.Intn(4)})
			n = r.Range(0, 3)
		}
		interleave := r.Chance(1, 3) // a wrapper kept by the caller is rendered while the table is still growing
		twoTables := r.Chance(1, 8)  // some rows are also added to a second table
		for i := 0; i < n; i++ {
			if interleave && r.Chance(1, 4) {
				s.Steps = append(s.Steps, Step{Op: "render", A: r.Intn(NFormats), B: r.Intn(NDecoChoices), C: ViaReused, D: r.Intn(4)})
				continue
			}
			if twoTables && r.Chance(1, 5) {
				s.Steps = append(s.Steps, Step{Op: "attachOther", A: r.Intn(3)})
				continue
			}
			s.Steps = append(s.Steps, genBuildStep(r, m, level, &ctr))
		}
		// valid renderer settings on columns (alignment incl. the column-0 default, skipable)
		for i := r.Pick([]int{3, 2, 1, 1}); i > 0; i-- {
			if r.Chance(3, 4) {
				s.Steps = append(s.Steps, Step{Op: "align", A: r.Intn(6), B: r.Intn(4)})
			} else {
				s.Steps = append(s.Steps, Step{Op: "skipable", A: r.Intn(6), B: r.Pick([]int{2, 2, 2, 1, 1})})
			}
		}
	}
	if s.Config["padding_ladder"] > 0 {
		// (a big table: a handful of routes instead of all of them)
		all := renderStepsAll()
		for i := 0; i < 6; i++ {
			s.Steps = append(s.Steps, all[r.Intn(len(all))])
		}
		s.Steps = append(s.Steps, Step{Op: "render", A: FmtText, B: r.Intn(6), C: ViaFresh}, Step{Op: "render", A: FmtMD, C: ViaFresh})
		return
	}
	s.Steps = append(s.Steps, renderStepsAll()...)
}

func (engC09) Exec(s *Script, keepLog bool) (guarded *Result) {
	defer guardExec("C09", &guarded)
	w := NewWorld(s.Cfg("kind", 0), "utf8-light", nil, NewEventLog(keepLog))
	res := &Result{}
	runSteps(w, s.Steps, res, func(i int, st *Step) *Violation {
		if st.Op != "render" {
			if !w.Do(st) {
				w.doColumnSetting(st)
			}
			return nil
		}
		spec := specOf(st)
		out, err, pi := w.Render(spec, nil)
		w.probe("render_" + fmtNames[spec.Format])
		if pi != nil {
			return &Violation{Property: "C09", Signature: "C09/panic:" + fmtNames[spec.Format] + ":" + pi.Frame,
				Detail: fmt.Sprintf("%s panicked: %s", spec, pi.Value)}
		}
		if err != nil {
			w.probe("render_error_" + fmtNames[spec.Format])
			if out != "" {
				return &Violation{Property: "C09", Signature: "C09/error-with-text:" + fmtNames[spec.Format],
					Detail: fmt.Sprintf("%s returned error %q together with %d bytes of text", spec, err, len(out))}
			}
		}
		return nil
	}, func(i int, st *Step, pi *PanicInfo) *Violation {
		return nil // a panic in a building step belongs to C02
	})
	res.NonTrivial = len(w.rows) > 0 || w.headerSet
	return finish(w, res)
}
