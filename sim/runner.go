package sim

import (
	"encoding/binary"
	"encoding/json"
	"fmt"
	"os"
	"os/exec"
	"path/filepath"
	"runtime"
	"runtime/debug"
	"sort"
	"strconv"
	"strings"
	"sync"
	"sync/atomic"
	"time"
)

// hangTimeoutOf is how long one execution of one script may take before the
// worker declares a hang.  Runs of most engines take milliseconds (the largest
// tables: tens of milliseconds); 45 s is three orders of magnitude above that,
// so that a loaded machine can never turn a slow run into a reported hang.  An
// engine whose runs are legitimately slow says so (C15: several hundred
// faulted renders of a tall table take seconds on an idle machine; 5 min).
// A hang is reported only after it was confirmed in a fresh process with
// three times this limit.
func hangTimeoutOf(e Engine) time.Duration {
	if u, ok := e.(interface{ Unwrap() Engine }); ok {
		e = u.Unwrap()
	}
	if sr, ok := e.(interface{ HangTimeout() time.Duration }); ok {
		return sr.HangTimeout()
	}
	return 45 * time.Second
}

// WatchExecutions wraps an engine so that one execution that does not end
// stops the process with exit code 77.  The watchdog counts its own two-second
// TICKS during which the same execution is still running, not wall-clock time:
// a machine that is frozen for a minute (a VM snapshot) lets one tick pass, not
// thirty, so a pause of the whole machine can never read as a hang.
func WatchExecutions(e Engine, limit time.Duration) Engine {
	var seq, running int64 // seq: number of executions started; running: 1 while one is in progress
	go func() {
		last, stuck := int64(-1), 0
		for {
			time.Sleep(2 * time.Second)
			cur := atomic.LoadInt64(&seq)
			if atomic.LoadInt64(&running) == 1 && cur == last {
				stuck++
			} else {
				stuck = 0
			}
			last = cur
			if time.Duration(stuck)*2*time.Second > limit {
				os.Exit(77)
			}
		}
	}()
	realExec := e.Exec
	return timedEngine{e, func(s *Script, keep bool) *Result {
		atomic.AddInt64(&seq, 1)
		atomic.StoreInt64(&running, 1)
		defer atomic.StoreInt64(&running, 0)
		return realExec(s, keep)
	}}
}

// ExecOneLimit: the limit for one execution in `tabsim exec-one` — what the
// parent asks for (TABSIM_HANG_S), else the engine's own.
func ExecOneLimit(e Engine) time.Duration {
	if v, err := strconv.Atoi(os.Getenv("TABSIM_HANG_S")); err == nil && v > 0 {
		return time.Duration(v) * time.Second
	}
	return hangTimeoutOf(e)
}

func preludeRuns(s *Script) int {
	if s.Prelude == nil {
		return 0
	}
	n := len(s.Prelude.Indices)
	if s.Prelude.Repeat > 1 {
		n *= s.Prelude.Repeat
	}
	return n
}

// timedEngine wraps an engine so that every Exec is visible to the watchdog.
type timedEngine struct {
	Engine
	exec func(s *Script, keepLog bool) *Result
}

func (t timedEngine) Exec(s *Script, keepLog bool) *Result { return t.exec(s, keepLog) }

// Unwrap lets optional interfaces of the wrapped engine be found.
func (t timedEngine) Unwrap() Engine { return t.Engine }

func asPinner(e Engine) (Pinner, bool) {
	if u, ok := e.(interface{ Unwrap() Engine }); ok {
		e = u.Unwrap()
	}
	p, ok := e.(Pinner)
	return p, ok
}

func isProcessStateful(e Engine) bool {
	if u, ok := e.(interface{ Unwrap() Engine }); ok {
		e = u.Unwrap()
	}
	ps, ok := e.(ProcessStateful)
	return ok && ps.ProcessStateful()
}

const bitmapBits = 1 << 24

// FoundViolation is one distinct violation signature found by a worker.
type FoundViolation struct {
	Signature string  `json:"signature"`
	Detail    string  `json:"detail"`
	Count     int     `json:"count"`
	FirstIdx  int     `json:"first_index"`
	OrigSteps int     `json:"orig_steps"`
	Script    *Script `json:"script"` // minimised, with Expect filled in
}

// WorkerOut is what a worker process reports to the coordinator.
type WorkerOut struct {
	Property   string            `json:"property"`
	Runs       int               `json:"runs"`
	Evals      int               `json:"evals"`
	Steps      int               `json:"steps"`
	Events     int               `json:"events"`
	NonTrivial int               `json:"nontrivial"`
	Foreign    int               `json:"foreign"`
	DetChecked int               `json:"det_checked"`
	Probes     map[string]int    `json:"probes"`
	Faults     map[string]int    `json:"faults"`
	Violations []*FoundViolation `json:"violations"`
	Samples    []*Script         `json:"samples"`
	WallS      float64           `json:"wall_s"`
	Trouble    string            `json:"trouble,omitempty"`
	Extra      map[string]int    `json:"extra,omitempty"`
}

// RunWorker executes runs lo, lo+stride, ... < hi of a batch.
func RunWorker(e Engine, tier string, batch uint64, lo, hi, stride int, deadline time.Time, bitmapPath string) *WorkerOut {
	debug.SetMaxStack(256 << 20)
	start := time.Now()
	out := &WorkerOut{Property: e.ID(), Probes: map[string]int{}, Faults: map[string]int{}, Extra: map[string]int{}}
	bitmap := make([]byte, bitmapBits/8)
	bySig := map[string]*FoundViolation{}
	// crash/hang beacon: the coordinator reads the index of the run that was
	// executing if this process dies (fatal runtime error) or is stopped by the
	// watchdog below (a single execution running for more than 40 s)
	var cur *os.File
	if bitmapPath != "" {
		cur, _ = os.Create(bitmapPath + ".cur")
	}
	e = WatchExecutions(e, hangTimeoutOf(e))
	for idx := lo; idx < hi; idx += stride {
		if cur != nil {
			var b [8]byte
			binary.LittleEndian.PutUint64(b[:], uint64(idx))
			cur.WriteAt(b[:], 0)
		}
		if !deadline.IsZero() && time.Now().After(deadline) {
			out.Extra["stopped_at_deadline"] = 1
			break
		}
		s := GenScript(e, batch, idx, tier)
		res := e.Exec(s, false)
		out.Runs++
		if res.Evals > 0 {
			out.Evals += res.Evals
		} else {
			out.Evals++
		}
		out.Steps += res.Steps
		out.Events += res.Events
		out.Foreign += res.Foreign
		mergeCounts(out.Probes, res.Probes)
		mergeCounts(out.Faults, res.Faults)
		if res.NonTrivial {
			out.NonTrivial++
			b := res.State % bitmapBits
			bitmap[b/8] |= 1 << (b % 8)
		}
		if len(out.Samples) < 3 && res.NonTrivial && res.Violation == nil && (out.Runs%7 == 3 || hi-idx <= 3*stride) {
			out.Samples = append(out.Samples, s)
		}
		// determinism sample: re-execute and compare the event-log hash
		if out.Runs%64 == 1 {
			again := e.Exec(s, false)
			out.DetChecked++
			if again.LogHash != res.LogHash || (again.Violation == nil) != (res.Violation == nil) {
				// Keep going: if the code under test corrupts process-wide state the
				// executions legitimately differ, and the violations found (each of
				// which must still reproduce in a fresh process) are what matters.
				// Without a reproducible violation this ends as harness trouble.
				if out.Trouble == "" {
					out.Trouble = fmt.Sprintf("nondeterministic execution of run %d: log hash %s vs %s", idx, res.LogHash, again.LogHash)
				}
				out.Extra["determinism_mismatches"]++
				if res.Violation == nil && again.Violation != nil {
					res = again
				}
			}
		}
		if res.Violation != nil {
			sig := res.Violation.Signature
			if fv, ok := bySig[sig]; ok {
				fv.Count++
				continue
			}
			if len(bySig) >= 24 {
				out.Extra["violations_beyond_cap"]++
				continue
			}
			var min *Script
			var r2 *Result
			stateful := isProcessStateful(e)
			if !stateful {
				min = Minimize(e, s, sig, 4000)
				r2 = e.Exec(min, false)
				if p, ok := asPinner(e); ok && r2.Violation != nil {
					if pinned := p.Pin(min, r2); pinned != nil {
						if r3 := e.Exec(pinned, false); r3.Violation != nil && r3.Violation.Signature == sig {
							min, r2 = pinned, r3
						}
					}
				}
				// The engine declares no process-wide state in the code it drives, but
				// a change to that code can introduce some (a pool, a cache): what is
				// reported must reproduce in a fresh process, so try that now and treat
				// the run as process-stateful if it does not.
				if bitmapPath != "" && !isDeathSig(sig) {
					if g, _, _ := freshExec(min, bitmapPath+".cand.json"); g != sig {
						out.Extra["violations_showing_undeclared_process_state"]++
						stateful = true
					}
				}
			}
			if stateful {
				// confirm and minimise in fresh processes only
				min, r2 = isolatedMinimize(s, sig, bitmapPath+".cand.json")
				if min == nil {
					// not reproducible alone: try it after the runs this worker executed before it
					var before []int
					for j := lo; j < idx; j += stride {
						before = append(before, j)
					}
					min, r2 = isolatedWithPrelude(s, sig, bitmapPath+".cand.json", &Prelude{Batch: batch, Tier: tier, Indices: before, First: lo, Stride: stride})
					if min != nil {
						out.Extra["violations_needing_a_prelude_of_earlier_runs"]++
					}
				}
				if min == nil {
					out.Extra["violations_not_reproducible_in_a_fresh_process"]++
					if out.Trouble == "" {
						out.Trouble = fmt.Sprintf("run %d reported %s in this process but a fresh process does not reproduce it", idx, sig)
					}
					continue
				}
			}
			if r2.Violation == nil || r2.Violation.Signature != sig {
				// must not happen: Minimize only accepts failing candidates
				min = s
				r2 = res
			}
			min.Expect = &Expect{Signature: sig, Detail: r2.Violation.Detail, LogHash: r2.LogHash}
			fv := &FoundViolation{Signature: sig, Detail: r2.Violation.Detail, Count: 1, FirstIdx: idx, OrigSteps: s.NSteps(), Script: min}
			bySig[sig] = fv
			out.Violations = append(out.Violations, fv)
		}
	}
	if len(out.Samples) == 0 {
		out.Samples = append(out.Samples, GenScript(e, batch, lo, tier))
	}
	out.WallS = time.Since(start).Seconds()
	if bitmapPath != "" {
		os.WriteFile(bitmapPath, bitmap, 0o644)
	}
	return out
}

// KnownFinding is one entry of /verif/known_findings.json.
type KnownFinding struct {
	Property  string `json:"property"`
	Signature string `json:"signature"`
	Status    string `json:"status"` // "open" or "fixed"
	Commit    string `json:"commit,omitempty"`
	What      string `json:"what"`
}

func LoadKnownFindings(path string) ([]KnownFinding, error) {
	b, err := os.ReadFile(path)
	if err != nil {
		if os.IsNotExist(err) {
			return nil, nil
		}
		return nil, err
	}
	var kf []KnownFinding
	if err := json.Unmarshal(b, &kf); err != nil {
		return nil, err
	}
	return kf, nil
}

// Coordinator

type CheckOptions struct {
	Property string
	Tier     string
	Seed     uint64
	Runs     int // 0 = engine default
	Workers  int
	VerifDir string
	Exe      string
	RaceExe  string
}

func verifDirDefault() string {
	if d := os.Getenv("VERIF_DIR"); d != "" {
		return d
	}
	return "/verif"
}

// RunCheck is `tabsim check`: returns the process exit code.
func RunCheck(o CheckOptions) int {
	e := EngineFor(o.Property)
	if e == nil {
		fmt.Fprintf(os.Stderr, "tabsim: no engine for property %q (have %v)\n", o.Property, EngineIDs())
		return 2
	}
	start := time.Now()
	runs := o.Runs
	if runs == 0 {
		runs = e.Runs(o.Tier)
	}
	if v := os.Getenv("VERIF_RUNS"); v != "" {
		if n, err := strconv.Atoi(v); err == nil && n > 0 {
			runs = n
		}
	}
	workers := o.Workers
	if workers <= 0 {
		workers = runtime.NumCPU()
		if workers > 16 {
			workers = 16
		}
	}
	if workers > runs {
		workers = runs
	}
	if workers < 1 {
		workers = 1
	}
	workDir := filepath.Join(o.VerifDir, "bin", "work", fmt.Sprintf("%s-%s-%d", o.Property, o.Tier, os.Getpid()))
	os.MkdirAll(workDir, 0o755)
	defer os.RemoveAll(workDir)
	fmt.Printf("tabsim: property=%s tier=%s VERIF_SEED=%d runs=%d workers=%d\n", o.Property, o.Tier, o.Seed, runs, workers)

	budget := 150 * time.Second
	if o.Tier == "thorough" {
		budget = 45 * time.Minute
	}
	if v := os.Getenv("VERIF_BUDGET_S"); v != "" {
		if n, err := strconv.Atoi(v); err == nil && n > 0 {
			budget = time.Duration(n) * time.Second
		}
	}
	outs := make([]*WorkerOut, workers)
	errs := make([]string, workers)
	deaths := make([]*death, workers)
	var wg sync.WaitGroup
	for k := 0; k < workers; k++ {
		wg.Add(1)
		go func(k int) {
			defer wg.Done()
			outPath := filepath.Join(workDir, fmt.Sprintf("w%d.json", k))
			bmPath := filepath.Join(workDir, fmt.Sprintf("w%d.bitmap", k))
			cmd := exec.Command(o.Exe, "worker", "-prop", o.Property, "-tier", o.Tier, "-seed", strconv.FormatUint(o.Seed, 10),
				"-lo", strconv.Itoa(k), "-hi", strconv.Itoa(runs), "-stride", strconv.Itoa(workers),
				"-budget", strconv.Itoa(int(budget.Seconds())), "-out", outPath, "-bitmap", bmPath)
			cmd.Env = append(os.Environ(), "GOMAXPROCS=1")
			var stderr strings.Builder
			cmd.Stderr = &stderr
			cmd.Stdout = &stderr
			if err := cmd.Run(); err != nil {
				// a worker that hung (watchdog, exit 77) or died of a fatal runtime
				// error was executing the run whose index is in its beacon file
				kind := ""
				if ee, ok := err.(*exec.ExitError); ok && ee.ExitCode() == 77 {
					kind = "hang"
				} else if ok && ee.ExitCode() == ExitDeadlock {
					kind = "deadlock"
				} else if i := strings.Index(stderr.String(), "fatal error: "); i >= 0 {
					line := stderr.String()[i+len("fatal error: "):]
					if j := strings.IndexByte(line, '\n'); j >= 0 {
						line = line[:j]
					}
					kind = "crash:" + strings.ReplaceAll(normalisePanic(line), " ", "-")
				}
				if b, rerr := os.ReadFile(bmPath + ".cur"); kind != "" && rerr == nil && len(b) == 8 {
					deaths[k] = &death{kind: kind, idx: int(binary.LittleEndian.Uint64(b)), worker: k, stride: workers}
					return
				}
				errs[k] = fmt.Sprintf("worker %d: %v\n%s", k, err, tail(stderr.String(), 4000))
				return
			}
			b, err := os.ReadFile(outPath)
			if err != nil {
				errs[k] = fmt.Sprintf("worker %d: %v", k, err)
				return
			}
			var wo WorkerOut
			if err := json.Unmarshal(b, &wo); err != nil {
				errs[k] = fmt.Sprintf("worker %d: bad output: %v", k, err)
				return
			}
			outs[k] = &wo
		}(k)
	}
	wg.Wait()
	trouble := false
	for k, msg := range errs {
		if msg != "" {
			trouble = true
			fmt.Fprintf(os.Stderr, "tabsim: HARNESS TROUBLE %s\n", msg)
			_ = k
		}
	}
	// merge
	tot := &WorkerOut{Probes: map[string]int{}, Faults: map[string]int{}, Extra: map[string]int{}}
	bitmap := make([]byte, bitmapBits/8)
	bySig := map[string]*FoundViolation{}
	for k, wo := range outs {
		if wo == nil {
			continue
		}
		if wo.Trouble != "" {
			trouble = true
			fmt.Fprintf(os.Stderr, "tabsim: HARNESS TROUBLE worker %d: %s\n", k, wo.Trouble)
		}
		tot.Runs += wo.Runs
		tot.Evals += wo.Evals
		tot.Steps += wo.Steps
		tot.Events += wo.Events
		tot.NonTrivial += wo.NonTrivial
		tot.Foreign += wo.Foreign
		tot.DetChecked += wo.DetChecked
		mergeCounts(tot.Probes, wo.Probes)
		mergeCounts(tot.Faults, wo.Faults)
		mergeCounts(tot.Extra, wo.Extra)
		if len(tot.Samples) < 3 {
			tot.Samples = append(tot.Samples, wo.Samples...)
		}
		for _, fv := range wo.Violations {
			if old, ok := bySig[fv.Signature]; ok {
				old.Count += fv.Count
				if fv.Script.NSteps() < old.Script.NSteps() {
					fv.Count = old.Count
					bySig[fv.Signature] = fv
				}
				continue
			}
			bySig[fv.Signature] = fv
		}
		if b, err := os.ReadFile(filepath.Join(workDir, fmt.Sprintf("w%d.bitmap", k))); err == nil && len(b) == len(bitmap) {
			for i := range b {
				bitmap[i] |= b[i]
			}
		}
	}
	if len(tot.Samples) > 3 {
		tot.Samples = tot.Samples[:3]
	}
	distinct := 0
	for _, b := range bitmap {
		for ; b != 0; b &= b - 1 {
			distinct++
		}
	}
	// race prong (properties with a data-race clause)
	var raceFinds []*raceFinding
	if rp, ok := e.(RaceProng); ok {
		n := rp.RaceRuns(o.Tier)
		if v := os.Getenv("VERIF_RACE_RUNS"); v != "" {
			if x, err := strconv.Atoi(v); err == nil {
				n = x
			}
		}
		for _, d := range deaths {
			if d != nil && (d.kind == "hang" || d.kind == "deadlock") && n > 0 {
				// serialised executions already stop for good (reported below); the
				// parallel ones would only wait out the same hang
				n = 0
				tot.Extra["race_prong_skipped_because_serialised_executions_hang"] = 1
			}
		}
		if n > 0 {
			finds, stats, tr := RunRaceProng(o, e, n, workDir)
			raceFinds = finds
			for k, v := range stats {
				tot.Extra[k] += v
			}
			if tr {
				trouble = true
			}
		}
	}
	// violations: verify each replay in a fresh process, then classify
	known, err := LoadKnownFindings(filepath.Join(o.VerifDir, "known_findings.json"))
	if err != nil {
		fmt.Fprintf(os.Stderr, "tabsim: HARNESS TROUBLE cannot read known_findings.json: %v\n", err)
		trouble = true
	}
	for _, d := range deaths {
		if d == nil {
			continue
		}
		sig := o.Property + "/" + d.kind
		s := GenScript(e, o.Seed, d.idx, o.Tier)
		if old, ok := bySig[sig]; ok {
			old.Count++
			continue
		}
		fmt.Printf("tabsim: a worker stopped with %s while executing run %d; confirming and minimising in fresh processes\n", d.kind, d.idx)
		min := minimizeDeath(o.Exe, s, sig, filepath.Join(workDir, "death.json"), hangTimeoutOf(e))
		if min == nil {
			// not alone: after the runs that worker had executed before it?  (a lock
			// left held, a pool or cache left dirty by an earlier run)
			var before []int
			for j := d.worker; j < d.idx; j += d.stride {
				before = append(before, j)
			}
			before = append(before, d.idx) // (the worker may have been executing it for the second time: determinism recheck)
			min = deathWithPrelude(o.Exe, s, sig, filepath.Join(workDir, "death.json"), hangTimeoutOf(e), &Prelude{Batch: o.Seed, Tier: o.Tier, Indices: before, First: d.worker, Stride: d.stride})
			if min != nil {
				tot.Extra["violations_needing_a_prelude_of_earlier_runs"]++
			}
		}
		if min == nil {
			fmt.Fprintf(os.Stderr, "tabsim: HARNESS TROUBLE run %d does not %s when executed alone in a fresh process\n", d.idx, d.kind)
			trouble = true
			continue
		}
		min.Expect = &Expect{Signature: sig, Detail: "the process executing this script did not survive: " + d.kind}
		bySig[sig] = &FoundViolation{Signature: sig, Detail: min.Expect.Detail, Count: 1, FirstIdx: d.idx, OrigSteps: s.NSteps(), Script: min}
	}
	for _, rf := range raceFinds {
		bySig[rf.sig] = &FoundViolation{Signature: rf.sig, Detail: rf.script.Expect.Detail, Count: rf.count, FirstIdx: rf.script.Index, OrigSteps: rf.script.NSteps(), Script: rf.script}
	}
	var sigs []string
	for sig := range bySig {
		sigs = append(sigs, sig)
	}
	sort.Strings(sigs)
	replayDir := filepath.Join(o.VerifDir, "replays")
	os.MkdirAll(replayDir, 0o755)
	nViol, nKnown := 0, 0
	var knownLines []string
	for _, sig := range sigs {
		fv := bySig[sig]
		path := filepath.Join(replayDir, fmt.Sprintf("%s-%d-%s.json", o.Property, fv.Script.Seed, fv.Script.Hash()))
		if err := fv.Script.WriteFile(path); err != nil {
			fmt.Fprintf(os.Stderr, "tabsim: HARNESS TROUBLE cannot write replay: %v\n", err)
			trouble = true
			continue
		}
		exe := o.Exe
		cmd := exec.Command(exe, "replay", path)
		cmd.Env = append(os.Environ(), "TABSIM_RACE="+o.RaceExe)
		outb, rerr := cmd.CombinedOutput()
		code := 0
		if ee, ok := rerr.(*exec.ExitError); ok {
			code = ee.ExitCode()
		} else if rerr != nil {
			code = 2
		}
		if code != 1 {
			fmt.Fprintf(os.Stderr, "tabsim: HARNESS TROUBLE replay of %s in a fresh process did not reproduce (exit %d):\n%s\n", path, code, tail(string(outb), 2000))
			trouble = true
			continue
		}
		matched := false
		for _, k := range known {
			if k.Status == "open" && k.Property == o.Property && k.Signature == sig {
				matched = true
				line := fmt.Sprintf("KNOWN-FINDING: property=%s %s — %s (seen %d times; replay=%s)", o.Property, sig, k.What, fv.Count, path)
				fmt.Println(line)
				knownLines = append(knownLines, line)
				nKnown++
			}
		}
		if !matched {
			nViol++
			fmt.Printf("violation: %s: %s (seen in %d runs, first at run %d; minimised from %d to %d steps)\n", sig, fv.Detail, fv.Count, fv.FirstIdx, fv.OrigSteps, fv.Script.NSteps())
			fmt.Printf("VIOLATION property=%s replay=%s\n", o.Property, path)
		}
	}
	wall := time.Since(start).Seconds()
	// evidence
	ev := map[string]interface{}{
		"property_id": o.Property,
		"tier":        o.Tier,
		"seed":        int64(o.Seed & 0x7fffffffffffffff),
		"level":       e.Level(),
		"wall_s":      round2(wall),
		"violations":  nViol,
		"assumptions": e.Assumptions(),
	}
	samples := []interface{}{}
	for _, s := range tot.Samples {
		samples = append(samples, s)
	}
	cov := map[string]interface{}{
		"evaluations":             tot.Evals,
		"distinct_nontrivial":     distinct,
		"nontrivial_runs":         tot.NonTrivial,
		"rule":                    e.Rule() + " distinct_nontrivial is a lower bound: popcount of a 2^24-bit bitmap of state hashes of non-trivial runs.",
		"samples":                 samples,
		"simulated_runs":          tot.Runs,
		"runs_per_hour":           int(float64(tot.Runs) / wall * 3600),
		"steps_executed":          tot.Steps,
		"simulated_time_events":   tot.Events,
		"simulated_time_note":     "the code base has no clock; simulated time is the global event sequence number (one tick per step and per seam crossing)",
		"faults_fired":            tot.Faults,
		"fault_kinds_not_present": []string{"network loss/duplication/reordering/partition", "crash/restart with durable state", "clock skew/jumps", "disk errors/torn writes", "failing allocation"},
		"probes":                  tot.Probes,
		"foreign_panics":          tot.Foreign,
		"determinism_rechecks":    tot.DetChecked,
		"known_findings_reported": nKnown,
		"workers":                 workers,
		"components_real":         []string{"go.pennock.tech/tabular (all packages, from /repo working tree, -tags verif)", "Go runtime", "html/template", "encoding/json", "go-runewidth", "uniseg", "C15 only: one real *os.File per route (/dev/full, every write fails with ENOSPC)"},
		"components_stub":         []string{"SimWriter (io.Writer)", "SimCallback (PropertyCallback)", "SimItem family (cell contents)", "row-class generator", "cooperative scheduler (concurrent engines)"},
		"exhaustive":              false,
	}
	for k, v := range tot.Extra {
		cov["x_"+k] = v
	}
	if a, ok := e.(interface {
		Annotate(cov map[string]interface{})
	}); ok {
		a.Annotate(cov)
	}
	ev["coverage"] = cov
	if eb, err := json.MarshalIndent(ev, "", " "); err == nil {
		evDir := filepath.Join(o.VerifDir, "evidence")
		os.MkdirAll(evDir, 0o755)
		if err := os.WriteFile(filepath.Join(evDir, o.Property+".json"), append(eb, '\n'), 0o644); err != nil {
			fmt.Fprintf(os.Stderr, "tabsim: HARNESS TROUBLE cannot write evidence: %v\n", err)
			trouble = true
		}
	}
	fmt.Printf("tabsim: property=%s runs=%d nontrivial=%d distinct>=%d events=%d faults=%v violations=%d known=%d foreign=%d wall=%.1fs\n",
		o.Property, tot.Runs, tot.NonTrivial, distinct, tot.Events, tot.Faults, nViol, nKnown, tot.Foreign, wall)
	if nViol > 0 {
		return 1
	}
	if trouble {
		return 2
	}
	return 0
}

func round2(f float64) float64 { return float64(int(f*100)) / 100 }

func tail(s string, n int) string {
	if len(s) <= n {
		return s
	}
	return "..." + s[len(s)-n:]
}

// RunReplay is `tabsim replay <file>`: exit 1 if the recorded violation
// reproduces exactly, 0 if the script now passes, 3 if it fails differently.
func RunReplay(path string, verbose bool) int {
	s, err := ReadScript(path)
	if err != nil {
		fmt.Fprintf(os.Stderr, "tabsim: %v\n", err)
		return 2
	}
	e := EngineFor(s.Property)
	if e == nil {
		fmt.Fprintf(os.Stderr, "tabsim: no engine for %q\n", s.Property)
		return 2
	}
	if s.Cfg("race", 0) == 1 {
		return replayRace(path, s)
	}
	if s.Expect != nil && isDeathSig(s.Expect.Signature) {
		exe, _ := os.Executable()
		got := execOutcome(exe, path, 3*hangTimeoutOf(e), preludeRuns(s))
		fmt.Printf("replay: property=%s seed=%d steps=%d outcome in a fresh process: %s\n", s.Property, s.Seed, s.NSteps(), got)
		if s.Property+"/"+got == s.Expect.Signature {
			fmt.Println("replay: REPRODUCED (same fatal outcome)")
			fmt.Printf("VIOLATION property=%s replay=%s\n", s.Property, path)
			return 1
		}
		if got == "ok" {
			fmt.Println("replay: no violation")
			return 0
		}
		return 3
	}
	RunPrelude(e, s, func(p *Script) { e.Exec(p, false) })
	res := e.Exec(s, verbose) // (the log lines are kept only when they are asked for: a worker does not keep them either)
	if verbose {
		for _, l := range res.Log {
			fmt.Println("  log:", l)
		}
	}
	fmt.Printf("replay: property=%s seed=%d steps=%d log_hash=%s\n", s.Property, s.Seed, s.NSteps(), res.LogHash)
	if res.Violation == nil {
		fmt.Println("replay: no violation")
		return 0
	}
	fmt.Printf("replay: %s\n", res.Violation)
	if s.Expect != nil {
		if s.Expect.Signature != res.Violation.Signature {
			fmt.Printf("replay: DIFFERENT signature (recorded %s)\n", s.Expect.Signature)
			return 3
		}
		if s.Expect.LogHash != "" && s.Expect.LogHash != res.LogHash {
			fmt.Printf("replay: same violation but DIFFERENT event log (recorded %s)\n", s.Expect.LogHash)
			return 3
		}
		fmt.Println("replay: REPRODUCED exactly (same signature, same event-log hash)")
	}
	fmt.Printf("VIOLATION property=%s replay=%s\n", s.Property, path)
	return 1
}
