package sim

import (
	"fmt"
	"sort"
)

// Result is what executing one script yields.  Exec is a pure function of the
// script and the code under test.
type Result struct {
	Violation  *Violation
	LogHash    string
	Events     int // simulated time: seam crossings + steps
	Steps      int
	Probes     map[string]int
	Faults     map[string]int // fault kinds that actually fired
	State      uint64         // hash of the final model state / interleaving
	Foreign    int            // runs cut short by a panic that belongs to another property
	NonTrivial bool
	Evals      int   // evaluations inside this run (default 1)
	Pin        []int // engine-specific: where the violation was found
	Log        []string
}

// Engine is one property's generator + executor + oracle.
type Engine interface {
	ID() string
	Level() string // evidence level
	// Gen fills s.Config/Steps/Tasks/Schedule from r.  idx is the run index; an
	// engine may use low indices for a deterministic enumeration prefix.
	Gen(r *Rng, s *Script, idx int, tier string)
	Exec(s *Script, keepLog bool) *Result
	// Runs is the number of runs per tier.
	Runs(tier string) int
	Rule() string
	Assumptions() []string
}

// RaceProng is implemented by engines whose property has a data-race clause:
// the coordinator then also runs their task scripts in the -race binary.
type RaceProng interface {
	RaceRuns(tier string) int
}

// ProcessStateful is implemented by engines whose code under test keeps
// process-wide state the simulator cannot reset (the decoration registry, and
// whatever package-level state a change might add).  Their violations are
// confirmed and minimised with one fresh process per candidate execution.
type ProcessStateful interface {
	ProcessStateful() bool
}

// Pinner is optionally implemented by engines that enumerate faults inside
// Exec: Pin rewrites a failing script so that it names the single fault.
type Pinner interface {
	Pin(s *Script, res *Result) *Script
}

var engines = map[string]Engine{}

func Register(e Engine) { engines[e.ID()] = e }

func EngineFor(id string) Engine { return engines[id] }

func EngineIDs() []string {
	var ids []string
	for k := range engines {
		ids = append(ids, k)
	}
	sort.Strings(ids)
	return ids
}

// GenScript derives run idx of the batch with the given seed.
func GenScript(e Engine, batch uint64, idx int, tier string) *Script {
	seed := Mix(batch, e.ID(), idx)
	s := &Script{Property: e.ID(), Seed: seed, Batch: batch, Index: idx, Config: map[string]int{}}
	e.Gen(NewRng(seed), s, idx, tier)
	return s
}

func mergeCounts(dst, src map[string]int) {
	for k, v := range src {
		dst[k] += v
	}
}

// ---------------------------------------------------------------------------
// helpers shared by generators

var wideTexts = []string{"日本語", "ｆｕｌｌ", "éa", "🙂", "a​b", "汉字 mixed"}
var hostileTexts = []string{`q"uote`, "pi|pe", "a,b", "<b>&amp;</b>", "back\\slash", "tab\there", "cr\rlf", "'single'", "&#x7c;"}

// genText returns a cell text; n makes it distinct from its neighbours.
func genText(r *Rng, n int, rich bool) string {
	base := fmt.Sprintf("t%d", n)
	if !rich {
		return base
	}
	switch r.Intn(10) {
	case 0:
		return ""
	case 1:
		return base + "\n" + genWord(r)
	case 2:
		return base + "\n" + genWord(r) + "\n"
	case 3:
		return wideTexts[r.Intn(len(wideTexts))] + base
	case 4:
		return hostileTexts[r.Intn(len(hostileTexts))] + base
	case 5:
		return "\n" + base
	case 6:
		return base + " " + genWord(r) + " " + genWord(r)
	}
	return base
}

func genWord(r *Rng) string {
	n := r.Range(0, 7)
	b := make([]byte, n)
	for i := range b {
		b[i] = byte('a' + r.Intn(26))
	}
	return string(b)
}

// genItem draws an item.  level 0: unique plain strings/ints; 1: plus bool,
// nil and rich texts; 2: plus the SimItem family with disagreeing sizes.
func genItem(r *Rng, n int, level int) Item {
	if level <= 0 {
		if r.Chance(1, 4) {
			return Item{K: "i", N: 1000 + n}
		}
		if level == 0 && r.Chance(1, 12) {
			// a blank cell that is still a unique item: a Stringer whose text is empty
			return Item{K: "S", S: ""}
		}
		if level < 0 && r.Chance(1, 10) {
			// blank cells: nil and the empty string (a table may treat them specially)
			return []Item{{K: "n"}, {K: "s", S: ""}}[r.Intn(2)]
		}
		return Item{K: "s", S: genText(r, n, false)}
	}
	top := 8
	if level >= 2 {
		top = 16
	}
	switch r.Intn(top) {
	case 0:
		if r.Chance(1, 2) {
			return Item{K: "i", N: r.Intn(12)} // small values that different tables have in common
		}
		return Item{K: "i", N: r.Range(-5, 100000)}
	case 1:
		return Item{K: "b", N: r.Intn(2)}
	case 2:
		return Item{K: "n"}
	case 3:
		return Item{K: "f", N: r.Range(-9, 99)}
	case 4, 5, 6, 7:
		if r.Chance(1, 16) {
			return Item{K: "x", S: "w", N: []int{31, 32, 33, 63, 64, 65, 66, 127, 128, 129, 130, 255, 256, 257}[r.Intn(14)]}
		}
		return Item{K: "s", S: genText(r, n, true)}
	case 8:
		return Item{K: "S", S: genText(r, n, true)}
	case 9:
		return Item{K: "G", S: genText(r, n, true)}
	case 10:
		return Item{K: "E", S: genText(r, n, true)}
	case 11:
		return Item{K: "Z", S: genText(r, n, true), H: r.Range(-3, 4), W: r.Range(-6, 12)}
	case 12:
		return Item{K: "H", S: genText(r, n, true), H: r.Range(-3, 4)}
	case 13:
		return Item{K: "W", S: genText(r, n, true), W: r.Range(-6, 12)}
	case 14:
		return Item{K: "J", S: genText(r, n, true), N: r.Intn(4)}
	}
	return Item{K: "s", S: genText(r, n, true)}
}

func genItems(r *Rng, count int, level int, ctr *int) []Item {
	out := make([]Item, count)
	for i := range out {
		*ctr++
		out[i] = genItem(r, *ctr, level)
	}
	return out
}

// buildWeights is the op mix of a build script; redrawn per run (swarm).
type buildMix struct {
	headers, rowItems, newRow, rowAdd, attach, appendNew, separator, sepAdd, scramble, dump int
	maxCells                                                                                int
	wide                                                                                    bool
}

func drawBuildMix(r *Rng) buildMix {
	w := func() int { return r.Intn(6) }
	m := buildMix{headers: 1 + r.Intn(3), rowItems: 1 + w(), newRow: w(), rowAdd: w(), attach: w(), appendNew: w(), separator: w(), sepAdd: r.Intn(2), scramble: r.Intn(2), dump: r.Pick([]int{3, 1})}
	m.maxCells = r.Range(0, 5)
	m.wide = r.Chance(1, 8)
	return m
}

func (m buildMix) weights() []int {
	return []int{m.headers, m.rowItems, m.newRow, m.rowAdd, m.attach, m.appendNew, m.separator, m.sepAdd, m.scramble, m.dump}
}

var buildOps = []string{"headers", "rowItems", "newRow", "rowAdd", "attach", "appendNewRow", "separator", "sepAdd", "scramble", "dump"}

func genBuildStep(r *Rng, m buildMix, level int, ctr *int) Step {
	op := buildOps[r.Pick(m.weights())]
	st := Step{Op: op}
	cells := func() int {
		if m.wide && r.Chance(1, 3) {
			return r.Range(9, 13)
		}
		return r.Range(0, m.maxCells)
	}
	switch op {
	case "headers", "rowItems":
		st.Items = genItems(r, cells(), level, ctr)
	case "newRow":
		st.A = r.Intn(3)
		st.B = r.Intn(12)
	case "rowAdd", "sepAdd":
		st.A = r.Intn(2) // 0 = newest row
		if r.Chance(1, 3) {
			st.A = r.Intn(8)
		}
		st.Items = genItems(r, 1, level, ctr)
	case "attach":
		st.A = r.Intn(4)
	case "scramble":
		st.A = r.Intn(3)
	}
	return st
}

// enumAlphabet is the reduced alphabet of the deterministic prefix.
func enumAlphabet() []Step {
	it := func(n int) []Item {
		out := make([]Item, n)
		for i := range out {
			out[i] = Item{K: "s", S: fmt.Sprintf("e%d", i)}
		}
		return out
	}
	return []Step{
		{Op: "headers", Items: it(0)},
		{Op: "headers", Items: it(1)},
		{Op: "headers", Items: it(2)},
		{Op: "rowItems", Items: it(0)},
		{Op: "rowItems", Items: it(1)},
		{Op: "rowItems", Items: it(3)},
		{Op: "separator"},
		{Op: "appendNewRow"},
		{Op: "rowAdd", A: 0, Items: it(1)},
		{Op: "rowAdd", A: 1, Items: it(1)},
		{Op: "newRow"},
		{Op: "attach"},
		{Op: "sepAdd", Items: it(1)},
	}
}

// enumCount is the number of sequences of length 0..maxLen over n letters.
func enumCount(n, maxLen int) int {
	total, p := 0, 1
	for l := 0; l <= maxLen; l++ {
		total += p
		p *= n
	}
	return total
}

// enumDecode maps idx to the idx-th sequence (shortest first).
func enumDecode(alpha []Step, maxLen, idx int) []Step {
	n := len(alpha)
	p := 1
	for l := 0; l <= maxLen; l++ {
		if idx < p {
			out := make([]Step, l)
			for i := l - 1; i >= 0; i-- {
				out[i] = alpha[idx%n]
				idx /= n
			}
			// make items distinct
			c := 0
			for i := range out {
				items := make([]Item, len(out[i].Items))
				for j := range items {
					c++
					items[j] = Item{K: "s", S: fmt.Sprintf("e%d", c)}
				}
				out[i].Items = items
			}
			return out
		}
		idx -= p
		p *= n
	}
	return nil
}

// guardExec is deferred by every engine's Exec.  A panic that escapes the
// per-step handling (in a check performed before the first step, in a final
// probe, in the set-up of a template shared by the tasks) is the library's if
// one of its functions is on the panicking stack: that is a violation of the
// property being exercised (its calls are all within the documented API), not
// trouble of the harness.  A panic with no library frame is the harness's own
// bug and is left to crash the process (exit 2, never VIOLATION).
func guardExec(id string, out **Result) {
	r := recover()
	if r == nil {
		return
	}
	pi := capturePanic(r)
	if pi.Frame == "?" {
		panic(r)
	}
	*out = &Result{Violation: &Violation{Property: id, Signature: id + "/panic@exec:" + pi.Frame, Detail: "panic: " + pi.Value},
		Probes: map[string]int{}, Faults: map[string]int{}, LogHash: "panicked"}
}
