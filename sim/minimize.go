package sim

// Minimize shrinks a failing script by delta debugging while the violation
// keeps the same signature.  It never consults an Rng: candidates are derived
// from the script alone, so minimisation is itself reproducible.
func Minimize(e Engine, s *Script, sig string, budget int) *Script {
	return MinimizeWith(s, budget, func(c *Script) bool {
		r := e.Exec(c, false)
		return r.Violation != nil && r.Violation.Signature == sig
	})
}

// MinimizeWith is Minimize with an arbitrary "still fails the same way" test.
func MinimizeWith(s *Script, budget int, test func(c *Script) bool) *Script {
	best := s.Clone()
	execs := 0
	fails := func(c *Script) bool {
		if execs >= budget {
			return false
		}
		execs++
		return test(c)
	}
	for round := 0; round < 6; round++ {
		before := best.NSteps()*1000 + len(best.Schedule) + argWeight(best)
		// whole tasks
		for t := len(best.Tasks) - 1; t >= 0 && len(best.Tasks) > 1; t-- {
			c := best.Clone()
			c.Tasks = append(c.Tasks[:t:t], c.Tasks[t+1:]...)
			if fails(c) {
				best = c
			}
		}
		best.Steps = ddminSteps(best.Steps, func(st []Step) bool {
			c := best.Clone()
			c.Steps = st
			return fails(c)
		})
		for t := range best.Tasks {
			tt := t
			best.Tasks[tt] = ddminSteps(best.Tasks[tt], func(st []Step) bool {
				c := best.Clone()
				c.Tasks[tt] = st
				return fails(c)
			})
		}
		best.Schedule = ddminInts(best.Schedule, func(sc []int) bool {
			c := best.Clone()
			c.Schedule = sc
			return fails(c)
		})
		// schedule entries towards 0
		for i := range best.Schedule {
			if best.Schedule[i] != 0 {
				c := best.Clone()
				c.Schedule[i] = 0
				if fails(c) {
					best = c
				}
			}
		}
		simplifyArgs(best, fails, func(c *Script) { best = c })
		after := best.NSteps()*1000 + len(best.Schedule) + argWeight(best)
		if after >= before {
			break
		}
	}
	return best
}

func argWeight(s *Script) int {
	n := 0
	each := func(st *Step) {
		n += abs(st.A) + abs(st.B) + abs(st.C) + abs(st.D) + abs(st.E) + len(st.S) + len(st.Plan)
		for _, it := range st.Items {
			n += 3 + len(it.S) + abs(it.N) + abs(it.H) + abs(it.W)
			if it.K != "s" {
				n += 2
			}
		}
	}
	for i := range s.Steps {
		each(&s.Steps[i])
	}
	for t := range s.Tasks {
		for i := range s.Tasks[t] {
			each(&s.Tasks[t][i])
		}
	}
	return n
}

func abs(x int) int {
	if x < 0 {
		return -x
	}
	return x
}

func ddminSteps(steps []Step, fails func([]Step) bool) []Step {
	cur := steps
	chunk := len(cur) / 2
	for chunk >= 1 {
		removed := false
		for start := 0; start < len(cur); {
			end := start + chunk
			if end > len(cur) {
				end = len(cur)
			}
			cand := make([]Step, 0, len(cur)-(end-start))
			cand = append(cand, cur[:start]...)
			cand = append(cand, cur[end:]...)
			if fails(cand) {
				cur = cand
				removed = true
			} else {
				start = end
			}
		}
		if !removed || chunk > len(cur) {
			chunk /= 2
		}
		if chunk > len(cur) {
			chunk = len(cur)
		}
	}
	return cur
}

func ddminInts(xs []int, fails func([]int) bool) []int {
	cur := xs
	// try truncation first (cheap and usually effective for schedules)
	for n := 0; n < len(cur); n = n*2 + 1 {
		if fails(cur[:n:n]) {
			return ddminInts2(cur[:n:n], fails)
		}
	}
	return ddminInts2(cur, fails)
}

func ddminInts2(xs []int, fails func([]int) bool) []int {
	cur := xs
	chunk := len(cur) / 2
	for chunk >= 1 {
		removed := false
		for start := 0; start < len(cur); {
			end := start + chunk
			if end > len(cur) {
				end = len(cur)
			}
			cand := make([]int, 0, len(cur)-(end-start))
			cand = append(cand, cur[:start]...)
			cand = append(cand, cur[end:]...)
			if fails(cand) {
				cur = cand
				removed = true
			} else {
				start = end
			}
		}
		if !removed {
			chunk /= 2
		}
	}
	return cur
}

// simplifyArgs tries, argument by argument, the simplest value that keeps the
// violation: fewer items, plain short strings, zero integers, shorter plans.
func simplifyArgs(best *Script, fails func(*Script) bool, accept func(*Script)) {
	cur := best
	try := func(mut func(c *Script)) {
		c := cur.Clone()
		mut(c)
		if fails(c) {
			cur = c
			accept(c)
		}
	}
	stepAt := func(c *Script, t, i int) *Step {
		if t < 0 {
			return &c.Steps[i]
		}
		return &c.Tasks[t][i]
	}
	visit := func(t, n int) {
		for i := 0; i < n; i++ {
			ii := i
			get := func() *Step { return stepAt(cur, t, ii) }
			// drop items one at a time (from the end)
			for k := len(get().Items) - 1; k >= 0; k-- {
				if len(get().Items) <= 1 && (get().Op == "rowAdd" || get().Op == "sepAdd") {
					break
				}
				kk := k
				try(func(c *Script) {
					st := stepAt(c, t, ii)
					st.Items = append(st.Items[:kk:kk], st.Items[kk+1:]...)
				})
			}
			for k := range get().Items {
				kk := k
				it := get().Items[kk]
				if it.K != "s" || len(it.S) > 1 {
					try(func(c *Script) { stepAt(c, t, ii).Items[kk] = Item{K: "s", S: "x"} })
				}
				it = get().Items[kk]
				if it.K != "s" && len(it.S) > 1 {
					try(func(c *Script) { stepAt(c, t, ii).Items[kk].S = "x" })
				}
				if it.H != 0 {
					try(func(c *Script) { stepAt(c, t, ii).Items[kk].H = 0 })
				}
				if it.W != 0 {
					try(func(c *Script) { stepAt(c, t, ii).Items[kk].W = 0 })
				}
			}
			if get().A != 0 {
				try(func(c *Script) { stepAt(c, t, ii).A = 0 })
			}
			if get().B != 0 {
				try(func(c *Script) { stepAt(c, t, ii).B = 0 })
			}
			if get().C != 0 {
				try(func(c *Script) { stepAt(c, t, ii).C = 0 })
			}
			if get().D != 0 {
				try(func(c *Script) { stepAt(c, t, ii).D = 0 })
			}
			if get().E != 0 {
				try(func(c *Script) { stepAt(c, t, ii).E = 0 })
			}
			for len(get().Plan) > 0 {
				l := len(get().Plan)
				try(func(c *Script) { st := stepAt(c, t, ii); st.Plan = st.Plan[:l-1] })
				if len(get().Plan) == l {
					break
				}
			}
		}
	}
	visit(-1, len(cur.Steps))
	for t := range cur.Tasks {
		visit(t, len(cur.Tasks[t]))
	}
	if k := cur.Cfg("kind", 0); k != 0 {
		try(func(c *Script) { c.Config["kind"] = 0 })
	}
}
