package sim

type propOwner struct {
	name string
	vals map[interface{}]interface{}
}
type ecModel struct{}
type SimCallback struct{}
type cbEvent struct{}

func (w *World) expectAddTime(r *mRow, header bool) {}
func (w *World) expectRowAdd(h *mRow, c *mCell)    {}
func (w *World) movePending(h *mRow)               {}
