//go:build verif

package sim

import "go.pennock.tech/tabular/texttable/decoration"

// HooksEnabled reports whether the registry yield hook is compiled in.
const HooksEnabled = true

func installHooks() { decoration.SimYield = CurrentYield }
