package sim

import (
	"fmt"
	"strconv"

	"go.pennock.tech/tabular"
)

type ptrErr struct{ msg string }

func (p *ptrErr) Error() string {
	if p == nil {
		return "typed nil error"
	}
	return p.msg
}

// typedNilErr is a non-nil error interface holding a nil *ptrErr.
var typedNilErr error = (*ptrErr)(nil)

// ecModel is a standalone error container with its expected content.
type ecModel struct {
	real   *tabular.ErrorContainer
	isNil  bool
	want   []error
	passed [][]error // lists handed to AddErrorList, kept so the caller can reuse them
}

func (w *World) newErr(src string) *SimErr {
	w.nextErr++
	return &SimErr{ID: w.nextErr, Src: src}
}

// expect records that e must (eventually) be reported by the table: now if
// sink is nil, or once the detached row `sink` is attached.
func (w *World) expect(e error, sink *mRow) {
	if e == misuseMarker && (sink == nil || sink.attached) {
		w.unknownErr++
		return
	}
	if sink != nil && !sink.attached {
		if se, ok := e.(*SimErr); ok && se.Batch == 0 {
			se.Batch = sink.handle + 1
		}
		sink.pending = append(sink.pending, e)
		return
	}
	w.expErrs = append(w.expErrs, e)
}

func (w *World) movePending(h *mRow) {
	if len(h.pending) > 0 {
		w.probe("pending_errors_moved_on_attach")
	}
	for _, e := range h.pending {
		if e == misuseMarker {
			w.unknownErr++
			continue
		}
		w.expErrs = append(w.expErrs, e)
	}
	h.pending = nil
}

// misuseMarker stands, in a detached row's pending list, for an error the
// library minted itself (its text and identity are not the statement's business).
var misuseMarker error = &SimErr{ID: -1, Src: "misuse"}

// DoErr executes the error-family steps.
//
//	rowError   A row ref (0 newest), B 0 real error / 1 nil error
//	tableError B 0 real / 1 nil
//	tableErrList Plan flags (1 = error, 0 = nil entry)   table.AddErrorList
//	ecNew      A kind (0 NewErrorContainer, 1 &ErrorContainer{}, 2 nil pointer)
//	ecAdd      A container ref, B 0 real / 1 nil
//	ecAddList  A container ref, B source (0 fresh list per Plan, 1 nil slice, 2 the
//	           container's own Errors(), 3 container C's Errors(), 4 a list passed
//	           earlier, overwritten with new errors per Plan and passed again)
//	ecScrub    A container ref: the caller nils out every list it passed earlier
func (w *World) DoErr(st *Step) bool {
	switch st.Op {
	case "rowError":
		i := pick(len(w.handles), st.A)
		if i < 0 {
			return true
		}
		h := w.handles[len(w.handles)-1-i]
		if h.real == nil {
			return true
		}
		if st.B == 1 {
			h.real.AddError(nil)
			w.probe("nil_error_added")
			return true
		}
		e := w.newErr(fmt.Sprintf("row#%d", h.handle))
		w.expect(e, h)
		h.real.AddError(e)
		w.Faults["row_error"]++
		if !h.attached {
			w.probe("error_on_detached_row")
		}
	case "tableError":
		if st.B == 1 {
			w.Tab.AddError(nil)
			w.probe("nil_error_added")
			return true
		}
		if st.B == 2 {
			// an error VALUE that happens to be a nil pointer of a concrete type: the
			// interface is not nil, so it is an error like any other
			w.Tab.AddError(typedNilErr)
			w.unknownErr++
			w.Faults["typed_nil_error"]++
			return true
		}
		e := w.newErr("table")
		w.expect(e, nil)
		w.Tab.AddError(e)
		w.Faults["table_error"]++
	case "tableErrList":
		list := make([]error, len(st.Plan))
		for i, f := range st.Plan {
			if f != 0 {
				e := w.newErr("table")
				list[i] = e
				w.expect(e, nil)
				w.Faults["table_error"]++
			} else {
				w.probe("nil_entry_in_list")
			}
		}
		w.Core.AddErrorList(list)
	case "errBurst":
		// many errors at once: A 0 table.AddError xN, 1 table.AddErrorList(N), 2 container B AddErrorList(N); N = C
		n := pick(2500, st.C)
		list := make([]error, n)
		switch pick(3, st.A) {
		case 0:
			for range list {
				e := w.newErr("table")
				w.expect(e, nil)
				w.Tab.AddError(e)
			}
			w.Faults["table_error"] += n
		case 1:
			for i := range list {
				list[i] = w.newErr("table")
				w.expect(list[i], nil)
			}
			w.Core.AddErrorList(list)
			w.Faults["table_error"] += n
		default:
			i := pick(len(w.ecs), st.B)
			if i < 0 || w.ecs[i].isNil {
				return true
			}
			for j := range list {
				list[j] = w.newErr(fmt.Sprintf("ec#%d", i))
			}
			w.ecs[i].real.AddErrorList(list)
			w.ecs[i].want = append(w.ecs[i].want, list...)
			w.Faults["container_error"] += n
		}
		w.probe("error_burst")
		if n > 1000 {
			w.probe("error_burst_over_1000")
		}
	case "ecNew":
		m := &ecModel{}
		switch pick(3, st.A) {
		case 0:
			m.real = tabular.NewErrorContainer()
		case 1:
			m.real = &tabular.ErrorContainer{}
			w.probe("zero_value_container")
		default:
			m.isNil = true
			w.probe("nil_container")
		}
		w.ecs = append(w.ecs, m)
	case "ecAdd":
		i := pick(len(w.ecs), st.A)
		if i < 0 {
			return true
		}
		m := w.ecs[i]
		if st.B == 1 {
			m.real.AddError(nil)
			return true
		}
		if st.B == 2 {
			m.real.AddError(typedNilErr)
			if !m.isNil {
				m.want = append(m.want, typedNilErr)
			}
			w.Faults["typed_nil_error"]++
			return true
		}
		e := w.newErr(fmt.Sprintf("ec#%d", i))
		m.real.AddError(e)
		if !m.isNil {
			m.want = append(m.want, e)
		}
		w.Faults["container_error"]++
	case "ecAddList":
		i := pick(len(w.ecs), st.A)
		if i < 0 {
			return true
		}
		m := w.ecs[i]
		var list []error
		switch pick(5, st.B) {
		case 0:
			list = make([]error, len(st.Plan), len(st.Plan)+pick(3, st.C))
			for j, f := range st.Plan {
				if f != 0 {
					list[j] = w.newErr(fmt.Sprintf("ec#%d", i))
					w.Faults["container_error"]++
				} else {
					w.probe("nil_entry_in_list")
				}
			}
			m.passed = append(m.passed, list)
		case 1:
			list = nil
		case 2:
			list = m.real.Errors()
			w.probe("list_aliases_own_errors")
		case 3:
			j := pick(len(w.ecs), st.C)
			list = w.ecs[j].real.Errors()
			w.probe("list_aliases_other_container")
		default:
			if len(m.passed) == 0 {
				return true
			}
			list = m.passed[len(m.passed)-1]
			for j := range list {
				list[j] = nil
				if j < len(st.Plan) && st.Plan[j] != 0 {
					list[j] = w.newErr(fmt.Sprintf("ec#%d", i))
				}
			}
			w.probe("caller_reuses_passed_list")
		}
		// expected: the non-nil entries, in order (snapshot before the call: the
		// list may alias the container itself)
		var add []error
		for _, e := range list {
			if e != nil {
				add = append(add, e)
			}
		}
		m.real.AddErrorList(list)
		if !m.isNil {
			m.want = append(m.want, add...)
		}
	case "ecScrub":
		i := pick(len(w.ecs), st.A)
		if i < 0 {
			return true
		}
		for _, l := range w.ecs[i].passed {
			for j := range l {
				l[j] = nil
			}
		}
		w.probe("caller_scrubs_passed_lists")
	default:
		return false
	}
	return true
}

// CheckC11 compares every error list with the model.
func (w *World) CheckC11(op string) *Violation {
	v := func(sig, format string, args ...interface{}) *Violation {
		return &Violation{Property: "C11", Signature: "C11/" + sig + "@" + op, Detail: fmt.Sprintf(format, args...)}
	}
	// the table
	got := w.Tab.Errors()
	if got != nil && len(got) == 0 {
		return v("table-empty-nonnil", "table Errors() is an empty non-nil list")
	}
	seen := map[error]int{}
	unknown := 0
	lastPos := map[string]int{}
	for i, e := range got {
		if e == nil {
			return v("table-nil-entry", "table Errors()[%d] is nil", i)
		}
		se, ok := e.(*SimErr)
		if !ok {
			unknown++
			continue
		}
		seen[e]++
		// order of occurrence is demanded among the errors of one source that
		// reached the table the same way: directly, or together with one row when
		// it was attached (a row's earlier errors necessarily arrive later)
		okey := se.Src + "/" + strconv.Itoa(se.Batch)
		if p, ok := lastPos[okey]; ok && p > se.ID {
			return v("table-order", "errors from source %s are out of order (%v after #%d)", se.Src, se, p)
		}
		lastPos[okey] = se.ID
	}
	want := map[error]int{}
	for _, e := range w.expErrs {
		want[e]++
	}
	for _, e := range w.expErrs {
		if seen[e] < want[e] {
			if want[e] > 1 {
				return v("table-lost-repeated", "%v was raised %d times on the table (or rows now attached) but the table reports it %d times", e, want[e], seen[e])
			}
			return v("table-lost", "%v was raised on the table (or a row now attached) but the table does not report it", e)
		}
	}
	for e, n := range seen {
		if want[e] == 0 {
			return v("table-unexpected", "%v is reported by the table but was raised on a row that is still detached", e)
		}
		if n > want[e] {
			return v("table-duplicate", "%v was raised %d time(s) but is reported %d times by the table", e, want[e], n)
		}
	}
	if unknown != w.unknownErr {
		return v("table-misuse-count", "table reports %d errors of its own, %d misuse events happened", unknown, w.unknownErr)
	}
	// detached rows
	for _, h := range w.handles {
		if h.real == nil || h.attached {
			continue
		}
		re := h.real.Errors()
		if re != nil && len(re) == 0 {
			return v("row-empty-nonnil", "detached row#%d Errors() is an empty non-nil list", h.handle)
		}
		if len(re) != len(h.pending) {
			return v("row-pending-count", "detached row#%d reports %d errors, %d were raised on it", h.handle, len(re), len(h.pending))
		}
		for i := range re {
			if _, own := re[i].(*SimErr); h.pending[i] == misuseMarker && !own && re[i] != nil {
				continue
			}
			if re[i] != h.pending[i] {
				return v("row-pending-order", "detached row#%d Errors()[%d]=%v, want %v", h.handle, i, re[i], h.pending[i])
			}
		}
	}
	// standalone containers
	for i, m := range w.ecs {
		ge := m.real.Errors()
		if ge != nil && len(ge) == 0 {
			return v("ec-empty-nonnil", "container#%d Errors() is an empty non-nil list", i)
		}
		if len(ge) != len(m.want) {
			for j, e := range ge {
				if e == nil {
					return v("ec-nil-entry", "container#%d Errors()[%d] is nil", i, j)
				}
			}
			return v("ec-count", "container#%d reports %d errors, %d non-nil errors were added", i, len(ge), len(m.want))
		}
		for j := range ge {
			if ge[j] == nil { // (a typed nil pointer inside the interface is not == nil)
				return v("ec-nil-entry", "container#%d Errors()[%d] is nil", i, j)
			}
			if ge[j] != m.want[j] {
				return v("ec-content", "container#%d Errors()[%d]=%v, want %v", i, j, ge[j], m.want[j])
			}
		}
	}
	return nil
}
