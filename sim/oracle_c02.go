package sim

import (
	"fmt"

	"go.pennock.tech/tabular"
)

type c02ProbeKey struct{}

func sameItem(a, b interface{}) (eq bool) {
	defer func() {
		if recover() != nil {
			eq = false
		}
	}()
	return a == b
}

// CheckC02 compares counts, order and addressing of the real table with the
// model.  op is the kind of the step just executed (part of the signature so
// that distinct failing call shapes are distinct findings).
func (w *World) CheckC02(op string) *Violation {
	v := func(sig, format string, args ...interface{}) *Violation {
		return &Violation{Property: "C02", Signature: "C02/" + sig + "@" + op, Detail: fmt.Sprintf(format, args...)}
	}
	t := w.Tab
	// column handles first, before anything that might bring the column records
	// up to date as a side effect (NColumns, row constructors, renders)
	if lo0, _ := w.maxCols(); w.colProbe%2 == 0 {
		for n := lo0; n >= 0 && n >= lo0-1; n-- {
			if t.Column(n) == nil {
				return v("column-handle-missing", "Column(%d) is nil although the widest of header and rows is %d", n, lo0)
			}
		}
	}
	w.colProbe++
	if got, want := t.NRows(), len(w.rows); got != want {
		return v("nrows", "NRows()=%d, model has %d rows+separators", got, want)
	}
	all := t.AllRows()
	if len(all) != len(w.rows) {
		return v("allrows-len", "len(AllRows())=%d, want %d", len(all), len(w.rows))
	}
	for i, mr := range w.rows {
		r := all[i]
		if r == nil {
			return v("allrows-nil", "AllRows()[%d] is nil", i)
		}
		if mr.real != nil && r != mr.real {
			return v("order", "AllRows()[%d] is not the %d-th row added", i, i+1)
		}
		if r.IsSeparator() != mr.sep {
			return v("separator-flag", "AllRows()[%d].IsSeparator()=%v, model %v", i, r.IsSeparator(), mr.sep)
		}
		if loc := r.Location(); loc.Row != i+1 || loc.Column != 0 {
			return v("row-location", "row %d reports Location %+v", i+1, loc)
		}
		if !mr.sep {
			cells := r.Cells()
			if len(cells) != len(mr.cells) {
				return v("row-cells-len", "row %d has %d cells, model %d", i+1, len(cells), len(mr.cells))
			}
		}
	}
	lo, hi := w.maxCols()
	nc := t.NColumns()
	if nc < lo || nc > hi {
		return v("ncolumns", "NColumns()=%d, widest of header and rows is %d (widest header ever %d)", nc, lo, w.headerMaxEver)
	}
	// headers
	hs := t.Headers()
	if !w.headerSet {
		if hs != nil {
			return v("headers-unset", "Headers() non-nil though AddHeaders was never called")
		}
	} else {
		if len(hs) != len(w.header.cells) {
			return v("headers-len", "len(Headers())=%d, last AddHeaders had %d items", len(hs), len(w.header.cells))
		}
		for i := range hs {
			if !sameItem(hs[i].Item(), w.header.cells[i].item) {
				return v("headers-item", "Headers()[%d] holds %v, want %v", i, hs[i].Item(), w.header.cells[i].item)
			}

		}
	}
	// addressing: every coordinate in a frame around the table
	top := nc
	if hi > top {
		top = hi
	}
	for r := -1; r <= len(w.rows)+2; r++ {
		for c := -1; c <= top+2; c++ {
			loc := tabular.CellLocation{Row: r, Column: c}
			ptr, err := t.CellAt(loc)
			exists := r >= 1 && r <= len(w.rows) && !w.rows[r-1].sep && c >= 1 && c <= len(w.rows[r-1].cells)
			if !exists {
				if err == nil {
					return v("cellat-no-error", "CellAt(%d,%d) returned no error for a cell that does not exist", r, c)
				}
				nsc, ok := err.(tabular.NoSuchCellError)
				if !ok {
					return v("cellat-error-type", "CellAt(%d,%d) error is %T, want NoSuchCellError", r, c, err)
				}
				if nsc.Location != loc {
					return v("cellat-error-loc", "CellAt(%d,%d) error names %+v", r, c, nsc.Location)
				}
				if ptr != nil {
					return v("cellat-ptr-with-error", "CellAt(%d,%d) returned a cell together with an error", r, c)
				}
				continue
			}
			if err != nil || ptr == nil {
				return v("cellat-missing", "CellAt(%d,%d) = (%v, %v) for an existing cell", r, c, ptr, err)
			}
			mc := w.rows[r-1].cells[c-1]
			if !sameItem(ptr.Item(), mc.item) {
				return v("cellat-identity", "CellAt(%d,%d) holds %v, want the item %v", r, c, ptr.Item(), mc.item)
			}
			// the lookup hands out the cell itself: a second lookup gives the same
			// object, and what is written through it is seen through the row
			if again, _ := t.CellAt(loc); again != ptr {
				return v("cellat-not-live", "two consecutive CellAt(%d,%d) calls returned different objects", r, c)
			}
			w.liveProbe++
			ptr.SetProperty(c02ProbeKey{}, w.liveProbe)
			if got := all[r-1].Cells()[c-1].GetProperty(c02ProbeKey{}); got != w.liveProbe {
				return v("cellat-not-live", "a property set through CellAt(%d,%d) is not visible in AllRows()[%d].Cells()[%d] (reads %v)", r, c, r-1, c-1, got)
			}
			if !sameItem(all[r-1].Cells()[c-1].Item(), mc.item) {
				return v("row-cells-item", "AllRows()[%d].Cells()[%d] holds %v, want the item %v", r-1, c-1, all[r-1].Cells()[c-1].Item(), mc.item)
			}
			if got := ptr.Location(); got != loc {
				return v("cell-location", "cell at (%d,%d) reports Location %+v", r, c, got)
			}
		}
	}
	// column handles exist exactly for 0..NColumns
	for n := -2; n <= top+3; n++ {
		got := t.Column(n) != nil
		want := n >= 0 && n <= nc
		if got != want {
			return v("column-handle-range", "Column(%d)!=nil is %v with NColumns()=%d", n, got, nc)
		}
	}
	// detached rows keep their cells in order
	for _, h := range w.handles {
		if h.real == nil || h.attached {
			continue
		}
		cells := h.real.Cells()
		if len(cells) != len(h.cells) {
			return v("detached-cells-len", "detached row#%d has %d cells, model %d", h.handle, len(cells), len(h.cells))
		}
		for i := range cells {
			if !sameItem(cells[i].Item(), h.cells[i].item) {
				return v("detached-cells-item", "detached row#%d cell %d holds %v", h.handle, i+1, cells[i].Item())
			}

		}
	}
	return nil
}

// StateHash summarises the model (used to count distinct states reached).
func (w *World) StateHash() uint64 {
	h := newHasher()
	if w.headerSet {
		h.num(1000 + len(w.header.cells))
	}
	for _, r := range w.rows {
		if r.sep {
			h.num(-1)
		} else {
			h.num(len(r.cells))
		}
	}
	h.num(len(w.detached()))
	return h.h
}
