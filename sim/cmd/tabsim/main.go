// tabsim: deterministic simulation of go.pennock.tech/tabular.
package main

import (
	"encoding/json"
	"flag"
	"fmt"
	"os"
	"runtime"
	"strconv"
	"time"

	"verif/sim"
)

func seedFromEnv(def uint64) uint64 {
	if v := os.Getenv("VERIF_SEED"); v != "" {
		if n, err := strconv.ParseUint(v, 10, 64); err == nil {
			return n
		}
		if n, err := strconv.ParseInt(v, 10, 64); err == nil {
			return uint64(n)
		}
	}
	return def
}

func main() {
	defer func() {
		if r := recover(); r != nil {
			if ht, ok := r.(sim.HarnessTrouble); ok {
				fmt.Fprintln(os.Stderr, "tabsim: HARNESS TROUBLE", ht.Msg)
				os.Exit(2)
			}
			panic(r)
		}
	}()
	if len(os.Args) < 2 {
		fmt.Fprintln(os.Stderr, "usage: tabsim check <id> <quick|thorough> | replay <file> | worker ... | gen <id> <idx> | selftest")
		os.Exit(2)
	}
	// Everything except the coordinator and the race prong executes scripts on
	// one goroutine at a time; one P makes what the code under test keeps in
	// per-P structures (sync.Pool) behave the same in a worker and in a replay.
	// An explicit GOMAXPROCS in the environment wins (the determinism self-test
	// uses 1, 4 and 16 on purpose).
	if os.Getenv("GOMAXPROCS") == "" {
		switch os.Args[1] {
		case "worker", "replay", "exec-one", "loghash":
			runtime.GOMAXPROCS(1)
		}
	}
	switch os.Args[1] {
	case "check":
		if len(os.Args) < 4 {
			fmt.Fprintln(os.Stderr, "usage: tabsim check <id> <quick|thorough>")
			os.Exit(2)
		}
		tier := os.Args[3]
		def := uint64(20261003)
		if tier == "thorough" {
			def = 3001
		}
		exe, _ := os.Executable()
		vd := os.Getenv("VERIF_DIR")
		if vd == "" {
			vd = "/verif"
		}
		os.Exit(sim.RunCheck(sim.CheckOptions{Property: os.Args[2], Tier: tier, Seed: seedFromEnv(def), VerifDir: vd, Exe: exe, RaceExe: os.Getenv("TABSIM_RACE")}))
	case "replay":
		fs := flag.NewFlagSet("replay", flag.ExitOnError)
		verbose := fs.Bool("v", false, "print the event log")
		fs.Parse(os.Args[2:])
		if fs.NArg() < 1 {
			fmt.Fprintln(os.Stderr, "usage: tabsim replay [-v] <file>")
			os.Exit(2)
		}
		os.Exit(sim.RunReplay(fs.Arg(0), *verbose))
	case "worker":
		fs := flag.NewFlagSet("worker", flag.ExitOnError)
		prop := fs.String("prop", "", "")
		tier := fs.String("tier", "quick", "")
		seed := fs.Uint64("seed", 1, "")
		lo := fs.Int("lo", 0, "")
		hi := fs.Int("hi", 0, "")
		stride := fs.Int("stride", 1, "")
		budget := fs.Int("budget", 0, "")
		out := fs.String("out", "", "")
		bitmap := fs.String("bitmap", "", "")
		fs.Parse(os.Args[2:])
		e := sim.EngineFor(*prop)
		if e == nil {
			fmt.Fprintln(os.Stderr, "no such engine")
			os.Exit(2)
		}
		var deadline time.Time
		if *budget > 0 {
			deadline = time.Now().Add(time.Duration(*budget) * time.Second)
		}
		wo := sim.RunWorker(e, *tier, *seed, *lo, *hi, *stride, deadline, *bitmap)
		b, _ := json.Marshal(wo)
		if err := os.WriteFile(*out, b, 0o644); err != nil {
			fmt.Fprintln(os.Stderr, err)
			os.Exit(2)
		}
	case "raceworker":
		fs := flag.NewFlagSet("raceworker", flag.ExitOnError)
		prop := fs.String("prop", "", "")
		tier := fs.String("tier", "quick", "")
		seed := fs.Uint64("seed", 1, "")
		lo := fs.Int("lo", 0, "")
		hi := fs.Int("hi", 0, "")
		stride := fs.Int("stride", 1, "")
		budget := fs.Int("budget", 0, "")
		fs.Parse(os.Args[2:])
		e := sim.EngineFor(*prop)
		if e == nil {
			os.Exit(2)
		}
		var deadline time.Time
		if *budget > 0 {
			deadline = time.Now().Add(time.Duration(*budget) * time.Second)
		}
		sim.RunRaceWorker(e, *tier, *seed, *lo, *hi, *stride, deadline)
	case "raceone":
		tries := 1
		if len(os.Args) > 3 {
			tries, _ = strconv.Atoi(os.Args[3])
		}
		os.Exit(sim.RunRaceOne(os.Args[2], tries))
	case "exec-one":
		// execute one script file in this process; used to observe hangs and fatal errors
		s, err := sim.ReadScript(os.Args[2])
		if err != nil {
			os.Exit(2)
		}
		e := sim.EngineFor(s.Property)
		if e == nil {
			os.Exit(2)
		}
		// a line per execution (each run of the prelude, then the script) lets the
		// parent see progress and time each execution by itself; this process keeps
		// no timer of its own, so that the Go runtime can still report "all
		// goroutines are asleep" when nothing can ever run again
		sim.RunPrelude(e, s, func(p *sim.Script) { os.Stdout.WriteString("EXEC\n"); e.Exec(p, false) })
		os.Stdout.WriteString("EXEC\n")
		e.Exec(s, false)
	case "selftest":
		exe, _ := os.Executable()
		n := 200
		if len(os.Args) > 2 {
			n, _ = strconv.Atoi(os.Args[2])
		}
		os.Exit(sim.RunSelfTest(exe, n))
	case "gen":
		e := sim.EngineFor(os.Args[2])
		idx, _ := strconv.Atoi(os.Args[3])
		tier := "quick"
		if len(os.Args) > 4 {
			tier = os.Args[4]
		}
		s := sim.GenScript(e, seedFromEnv(20261003), idx, tier)
		b, _ := json.MarshalIndent(s, "", " ")
		fmt.Println(string(b))
	case "loghash":
		// tabsim loghash <id> <tier> <lo> <hi>: one line per run, for the determinism self-test
		e := sim.EngineFor(os.Args[2])
		lo, _ := strconv.Atoi(os.Args[4])
		hi, _ := strconv.Atoi(os.Args[5])
		for i := lo; i < hi; i++ {
			s := sim.GenScript(e, seedFromEnv(20261003), i, os.Args[3])
			r := e.Exec(s, false)
			v := "-"
			if r.Violation != nil {
				v = r.Violation.Signature
			}
			fmt.Printf("%s %d %s %s %d %s\n", os.Args[2], i, s.Hash(), r.LogHash, r.Events, v)
		}
	default:
		fmt.Fprintln(os.Stderr, "unknown command", os.Args[1])
		os.Exit(2)
	}
}
