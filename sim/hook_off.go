//go:build !verif

package sim

const HooksEnabled = false

func installHooks() {}
