package sim

// Rng is a SplitMix64 stream.  Every choice of a run (configuration, script,
// schedule, faults) is drawn from one Rng seeded from VERIF_SEED, the property
// id and the run index; nothing else in the simulator is a source of
// nondeterminism.  Execution of a script never touches an Rng.
type Rng struct{ s uint64 }

func NewRng(seed uint64) *Rng { return &Rng{s: seed} }

func (r *Rng) Uint64() uint64 {
	r.s += 0x9e3779b97f4a7c15
	z := r.s
	z = (z ^ (z >> 30)) * 0xbf58476d1ce4e5b9
	z = (z ^ (z >> 27)) * 0x94d049bb133111eb
	return z ^ (z >> 31)
}

// Intn returns a value in [0,n); n<=0 gives 0.
func (r *Rng) Intn(n int) int {
	if n <= 0 {
		return 0
	}
	return int(r.Uint64() % uint64(n))
}

// Range returns a value in [lo,hi].
func (r *Rng) Range(lo, hi int) int {
	if hi <= lo {
		return lo
	}
	return lo + r.Intn(hi-lo+1)
}

// Chance is true with probability num/den.
func (r *Rng) Chance(num, den int) bool { return r.Intn(den) < num }

// Pick returns an index chosen by the given non-negative weights.
func (r *Rng) Pick(weights []int) int {
	total := 0
	for _, w := range weights {
		total += w
	}
	if total <= 0 {
		return 0
	}
	x := r.Intn(total)
	for i, w := range weights {
		if x < w {
			return i
		}
		x -= w
	}
	return len(weights) - 1
}

// Mix derives a run seed from the batch seed, a property id and a run index.
func Mix(seed uint64, prop string, idx int) uint64 {
	h := seed ^ 0x6a09e667f3bcc908
	for i := 0; i < len(prop); i++ {
		h = (h ^ uint64(prop[i])) * 0x100000001b3
	}
	h ^= uint64(idx) * 0x9e3779b97f4a7c15
	r := Rng{s: h}
	r.Uint64()
	return r.Uint64()
}

// fnv64 is used for event-log and state hashes.
type hasher struct{ h uint64 }

func newHasher() *hasher { return &hasher{h: 0xcbf29ce484222325} }

func (h *hasher) str(s string) {
	for i := 0; i < len(s); i++ {
		h.h = (h.h ^ uint64(s[i])) * 0x100000001b3
	}
	h.h = (h.h ^ 0xff) * 0x100000001b3
}

func (h *hasher) num(n int) {
	u := uint64(n)
	for i := 0; i < 8; i++ {
		h.h = (h.h ^ (u & 0xff)) * 0x100000001b3
		u >>= 8
	}
}

func hashString(s string) uint64 {
	h := newHasher()
	h.str(s)
	return h.h
}
