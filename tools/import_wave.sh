#!/bin/bash
# tools/import_wave.sh <wave-number> [id ...]: copies what the sub-agents left in /tmp/mut/<id>/_mut/<n>/ to
# seeded/<id>-w<wave>-<n>/ (patch.diff, demonstration, AGENT_README.md).  Nothing is applied to /repo.
w="$1"; shift
ids=("$@"); [ ${#ids[@]} -eq 0 ] && ids=(C02 C09 C11 C12 C13 C14 C15 C16 C17 C19)
for p in "${ids[@]}"; do
  for src in /tmp/mut/$p/_mut/*/; do
    [ -f "$src/patch.diff" ] || continue
    n="$(basename "$src")"; dst="/verif/seeded/$p-w$w-$n"
    mkdir -p "$dst"
    cp "$src/patch.diff" "$dst/"
    [ -f "$src/README.md" ] && cp "$src/README.md" "$dst/AGENT_README.md"
    for f in "$src"/demo*_test.go; do [ -f "$f" ] && cp "$f" "$dst/"; done
    [ -d "$src/demo" ] && cp -r "$src/demo" "$dst/"
    echo "$dst"
  done
done
