#!/bin/bash
# tools/verify_demo.sh <mutant-dir>   (contains patch.diff and demo*_test.go or demo/main.go)
# Confirms in a scratch worktree: build+vet ok and the repo's tests pass with the change; the
# demonstration FAILS with the change and PASSES without it.  Prints a JSON fragment.
set -u
d="$(readlink -f "$1")"
export GOFLAGS=-mod=mod GOPROXY=off GOSUMDB=off GOTOOLCHAIN=local
wt="$(mktemp -d /tmp/vd.XXXXXX)"; rmdir "$wt"
trap 'git -C /repo worktree remove --force "$wt" >/dev/null 2>&1; rm -rf "$wt"' EXIT
git -C /repo worktree add -q "$wt" "${BASE:-HEAD}" || exit 2
pkgdir_of() { # target directory from the package clause
  case "$(grep -m1 '^package ' "$1" | awk '{print $2}')" in
    tabular|tabular_test) echo .;; texttable|texttable_test) echo texttable;; csv|csv_test) echo csv;;
    json|json_test) echo json;; html|html_test) echo html;; markdown|markdown_test) echo markdown;;
    auto|auto_test) echo auto;; decoration|decoration_test) echo texttable/decoration;; *) echo .;;
  esac; }
tags=""
# a demonstration of a data race needs the race detector: its author says so in the note
race=""; grep -qs -- "go test -race" "$d"/AGENT_README.md && race="-race"
run_demo() { # returns 0 if demo passes
  local rc=0
  if ls "$d"/demo*_test.go >/dev/null 2>&1; then
    for f in "$d"/demo*_test.go; do
      t="$(pkgdir_of "$f")"; cp "$f" "$wt/$t/zz_$(basename "$f")"
      grep -q 'go:build verif' "$f" && tags="-tags verif"
    done
    for t in $(for f in "$d"/demo*_test.go; do pkgdir_of "$f"; done | sort -u); do
      ( cd "$wt/$t" && go test $tags $race -count=1 -run 'Demo|Mut|C[0-9][0-9]|Stress|Seed' . >/dev/null 2>&1 ) || rc=1
    done
    for f in "$d"/demo*_test.go; do rm -f "$wt/$(pkgdir_of "$f")/zz_$(basename "$f")"; done
  elif [ -f "$d/demo/main.go" ]; then
    mkdir -p "$wt/zz_demo" && cp "$d/demo/main.go" "$wt/zz_demo/" && ( cd "$wt" && go run ./zz_demo >/dev/null 2>&1 ) || rc=1
    rm -rf "$wt/zz_demo"
  else rc=2; fi
  return $rc
}
run_demo; clean=$?
git -C "$wt" apply "$d/patch.diff" 2>/dev/null || git -C "$wt" apply -3 "$d/patch.diff" || { echo '{"error":"patch does not apply"}'; exit 2; }
( cd "$wt" && go build ./... && go vet ./... ) >/dev/null 2>&1; build=$?
( cd "$wt" && go test -count=1 ./... ) >/dev/null 2>&1; tests=$?
run_demo; mutated=$?
echo "{\"build_vet_ok\": $([ $build -eq 0 ] && echo true || echo false), \"existing_tests_pass_with_change\": $([ $tests -eq 0 ] && echo true || echo false), \"demo_passes_without_change\": $([ $clean -eq 0 ] && echo true || echo false), \"demo_fails_with_change\": $([ $mutated -eq 1 ] && echo true || echo false)}"
