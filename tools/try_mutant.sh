#!/bin/bash
# tools/try_mutant.sh <patch.diff> [tier] [property ...]
# Applies a seeded change to a scratch worktree of /repo (never to /repo itself), checks that it
# builds and passes the repository's own tests, then runs the given checks (default: all) from a
# scratch copy of /verif so that evidence/ and replays/ here are not touched.
# Prints one line per property: CAUGHT / missed / trouble.
set -u
patch="$(readlink -f "$1")"; shift
tier="${1:-quick}"; [ $# -gt 0 ] && shift
props=("$@"); [ ${#props[@]} -eq 0 ] && props=(C02 C09 C11 C12 C13 C14 C15 C16 C17 C19)
export GOFLAGS=-mod=mod GOPROXY=off GOSUMDB=off GOTOOLCHAIN=local
wt="$(mktemp -d /tmp/mw.XXXXXX)"; vd="$(mktemp -d /tmp/vm.XXXXXX)"
cleanup() { git -C /repo worktree remove --force "$wt" >/dev/null 2>&1; rm -rf "$wt" "$vd"; }
trap cleanup EXIT
rmdir "$wt"; git -C /repo worktree add -q "$wt" "${BASE:-HEAD}" || exit 2
git -C "$wt" apply "$patch" 2>/dev/null || git -C "$wt" apply -3 "$patch" || { echo "patch does not apply"; exit 2; }
( cd "$wt" && go build ./... && go vet ./... >/dev/null 2>&1 ) || { echo "MUTANT INVALID: does not build/vet"; exit 3; }
if ! ( cd "$wt" && go test -count=1 ./... >"$vd.testlog" 2>&1 ); then echo "MUTANT INVALID: existing tests fail"; grep -E "^(---|FAIL)" "$vd.testlog" | head; rm -f "$vd.testlog"; exit 3; fi
rm -f "$vd.testlog"
rsync -a --exclude .git --exclude bin --exclude replays --exclude seeded /verif/ "$vd/"
for p in "${props[@]}"; do
  out="$(cd "$vd" && VERIF_REPO="$wt" ./check "$p" "$tier" 2>&1)"; rc=$?
  case $rc in
    1) echo "$p CAUGHT: $(echo "$out" | grep -m1 '^violation:' | cut -c1-220)";;
    0) echo "$p missed";;
    *) echo "$p trouble rc=$rc: $(echo "$out" | grep -m2 -i trouble | cut -c1-200)";;
  esac
done
