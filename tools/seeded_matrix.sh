#!/bin/bash
# tools/seeded_matrix.sh [tier] [id ...]: runs every check against every seeded change (scratch worktrees
# only) and records the outcome in seeded/<id>/caught.txt.  Three changes are tried in parallel.
tier="${1:-quick}"; shift || true
cd /verif/seeded || exit 2
ids=("$@"); [ ${#ids[@]} -eq 0 ] && ids=($(ls -d */ | tr -d /))
printf '%s\n' "${ids[@]}" | xargs -P 3 -I{} bash -c "/verif/tools/try_mutant.sh /verif/seeded/{}/patch.diff $tier > /verif/seeded/{}/caught.$tier.txt 2>&1; echo {} done"
