#!/usr/bin/env python3
"""Writes seeded/<id>/meta.json from tools/seeded_descriptions.json, the demonstration check
(tools/verify_demo.sh) and the recorded check outcomes (seeded/<id>/caught.<tier>.txt), and
regenerates the table at the end of DESIGN.md section 9."""
import json, os, re, subprocess, sys
root = '/verif/seeded'
desc = json.load(open('/verif/tools/seeded_descriptions.json'))
rows = []
# demonstrations still to be confirmed are run first, six at a time
from concurrent.futures import ThreadPoolExecutor
def _needs(mid):
    mp = os.path.join(root, mid, 'meta.json')
    if '--reverify' in sys.argv or not os.path.exists(mp): return True
    return 'demonstration' not in json.load(open(mp))
def _verify(mid):
    return mid, subprocess.run(['/verif/tools/verify_demo.sh', os.path.join(root, mid)], capture_output=True, text=True).stdout.strip()
todo = [m for m in sorted(os.listdir(root)) if os.path.isdir(os.path.join(root, m)) and _needs(m)]
with ThreadPoolExecutor(6) as ex:
    verified = dict(ex.map(_verify, todo))
for mid in sorted(os.listdir(root)):
    d = os.path.join(root, mid)
    if not os.path.isdir(d): continue
    meta_path = os.path.join(d, 'meta.json')
    old = json.load(open(meta_path)) if os.path.exists(meta_path) else {}
    info = desc.get(mid, {})
    meta = {
        'id': mid,
        'property': info.get('property', mid.split('-')[0]),
        'change': info.get('change', ''),
        'needs_to_manifest': info.get('needs', ''),
        'source': 'independent sub-agent given only the property text and a scratch worktree (wave %s)' % mid.split('-')[1][1:],
        'files': sorted(f for f in os.listdir(d) if f not in ('meta.json',) and not f.startswith('caught.')),
    }
    if 'demonstration' in old and '--reverify' not in sys.argv:
        meta['demonstration'] = old['demonstration']
    else:
        out = verified[mid] if mid in verified else _verify(mid)[1]
        try: meta['demonstration'] = json.loads(out)
        except Exception: meta['demonstration'] = {'error': out}
        meta['demonstration']['command'] = 'tools/verify_demo.sh seeded/%s  (scratch worktree of /repo HEAD: go build+vet, go test ./..., demo with and without patch.diff)' % mid
    caught, missed, trouble = [], [], []
    detail = {}
    for tier in ('quick', 'thorough'):
        p = os.path.join(d, 'caught.%s.txt' % tier)
        if not os.path.exists(p): continue
        for line in open(p, errors='replace'):
            m = re.match(r'^(C\d+) (CAUGHT|missed|trouble)(.*)', line)
            if not m: continue
            pid, what, rest = m.groups()
            if what == 'CAUGHT':
                if pid not in caught: caught.append(pid)
                sig = re.search(r'violation: (\S+?):? ', rest)
                detail[pid] = sig.group(1).rstrip(':') if sig else ''
            elif what == 'missed' and tier == 'quick': missed.append(pid)
            elif what == 'trouble': trouble.append(pid)
    meta['checks_run'] = 'tools/try_mutant.sh seeded/%s/patch.diff quick  (every registered check, quick tier, scratch worktree + scratch copy of /verif)' % mid
    meta['caught_by'] = caught
    meta['caught_signatures'] = detail
    meta['not_caught_by'] = [p for p in missed if p not in caught]
    if trouble: meta['harness_trouble'] = trouble
    json.dump(meta, open(meta_path, 'w'), indent=1)
    rows.append(meta)
# table
lines = ['| seeded change | breaks | what it needs | caught by (quick tier) |', '|---|---|---|---|']
for m in rows:
    own = m['property']
    cb = ', '.join(('**%s**' % p if p == own else p) + (' `%s`' % m['caught_signatures'][p].split('/',1)[-1][:48] if p == own and m['caught_signatures'].get(p) else '') for p in m['caught_by']) or '— MISSED'
    lines.append('| `%s` %s | %s | %s | %s |' % (m['id'], m['change'], own, m['needs_to_manifest'], cb))
table = '\n'.join(lines)
p = '/verif/DESIGN.md'
s = open(p).read()
begin, end = '<!-- seeded-table-begin -->', '<!-- seeded-table-end -->'
if begin in s:
    s = s[:s.index(begin)] + begin + '\n' + table + '\n' + s[s.index(end):]
    open(p, 'w').write(s)
own_caught = sum(1 for m in rows if m['property'] in m['caught_by'])
print('%d seeded changes, %d caught by their own property\'s check, %d caught by some check' % (len(rows), own_caught, sum(1 for m in rows if m['caught_by'])))
