#!/bin/bash
# tools/seeded_recheck.sh [id ...]: regression test of the harness itself.  For every seeded change, runs
# again only the checks that caught it when the full matrix was last recorded (seeded/<id>/caught.quick.txt)
# and reports every one that no longer does.  Writes seeded/<id>/caught.recheck.txt.  Three at a time.
cd /verif/seeded || exit 2
ids=("$@"); [ ${#ids[@]} -eq 0 ] && ids=($(ls -d */ | tr -d /))
one() {
  id="$1"; f="/verif/seeded/$id/caught.quick.txt"
  [ -f "$f" ] || { echo "$id: no recorded matrix"; return; }
  props=$(grep CAUGHT "$f" | awk '{print $1}' | sort -u | tr '\n' ' ')
  [ -n "$props" ] || { echo "$id: was caught by nothing"; return; }
  /verif/tools/try_mutant.sh "/verif/seeded/$id/patch.diff" quick $props > "/verif/seeded/$id/caught.recheck.txt" 2>&1
  bad=$(grep -v CAUGHT "/verif/seeded/$id/caught.recheck.txt" | cut -c1-160 | tr '\n' ';')
  if [ -n "$bad" ]; then echo "$id: REGRESSION [$props] -> $bad"; else echo "$id: ok [$props]"; fi
}
export -f one
printf '%s\n' "${ids[@]}" | xargs -P 3 -I{} bash -c 'one {}'
