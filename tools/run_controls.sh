#!/bin/bash
# runs all checks on every control; prints only alarms
cd /verif
ls -d controls/*/ | xargs -P 3 -I{} bash -c 'out=$(tools/try_mutant.sh {}patch.diff quick 2>&1 | grep -v missed); [ -n "$out" ] && echo "== {}: $out" | cut -c1-400; true'
echo controls-done
